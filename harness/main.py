"""./check <ID> [--tier quick|thorough] [--replay <file>] [--selftest]

Dispatches to harness/props/<id>.py.  Every property module exposes
    run(out: common.Outcome)      -> fills `out`; violations via out.violation(...)
    replay(case: dict) -> str     -> re-runs one recorded violating case against the current tree
"""
import argparse
import importlib
import json
import os
import sys
import traceback

sys.path.insert(0, os.path.dirname(os.path.abspath(__file__)))
import common  # noqa: E402


def main():
    ap = argparse.ArgumentParser()
    ap.add_argument('prop')
    ap.add_argument('--tier', default=os.environ.get('VERIF_TIER') or 'quick', choices=['quick', 'thorough'])
    ap.add_argument('--replay')
    ap.add_argument('--selftest', action='store_true')
    args = ap.parse_args()
    prop = args.prop.upper()
    try:
        seed = int(os.environ.get('VERIF_SEED') or 0)
    except ValueError:
        seed = 0
    try:
        mod = importlib.import_module('props.' + prop.lower())
    except ImportError:
        traceback.print_exc()
        print('MACHINERY-FAILURE property=%s no such check' % prop)
        return 2
    try:
        common.import_emmet()
        if args.replay:
            case = json.load(open(args.replay))
            print(mod.replay(case))
            return 0
        if args.selftest:
            return mod.selftest()
        if args.tier == 'thorough' and not os.environ.get('VERIF_CHUNK_BUDGET'):
            common.CHUNK_BUDGET = 1500
        out = common.Outcome(prop, args.tier, seed)
        mod.run(out)
        return out.finish()
    except common.MachineryError as e:
        print('MACHINERY-FAILURE property=%s %s' % (prop, e))
        return 2
    except Exception:
        traceback.print_exc()
        print('MACHINERY-FAILURE property=%s unexpected harness exception' % prop)
        return 2


if __name__ == '__main__':
    sys.exit(main())
