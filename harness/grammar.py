"""Grammar-level differential used by C01-C04.

AbbrGrammar.tla builds every abbreviation of the documented grammar from the given syntactic fragments (up to the bound);
AbbrConvert.tla - tokenizer, token parser and convert() transcribed from the code, TLC-checked for acceptance, tiling and tree
shape - computes the node tree for it and AbbrPrint.tla (implicit names, attribute merging, the HTML formatter without
formatting) the markup.  The real emmet.abbreviation.parse() is run on every abbreviation and the listing [depth, name, text,
self-closing, attributes] is compared on the components the calling property speaks about; then the real expand() is run and its
output, read by the independent tag lexer, is compared with the model's markup read by the same lexer, again on those components.
"""
import zlib

import common
import project_html as ph

NONE = '<<NONE>>'
UNLIMITED = 1000000


def _jv(v):
    out = ''
    for t in (v or []):
        if isinstance(t, str):
            out += t
        else:
            out += ('${%d:%s}' % (t.index, t.name)) if t.name else '${%d}' % t.index
    return out


def _listing(nodes, d, acc):
    for n in nodes:
        acc.append({'d': d, 'name': n.name if n.name is not None else NONE, 'text': _jv(n.value), 'sc': bool(n.self_closing),
                    'attrs': [{'name': a.name if a.name is not None else NONE, 'hasval': a.value is not None, 'value': _jv(a.value),
                               'vt': a.value_type, 'bool': bool(a.boolean), 'impl': bool(a.implied)} for a in (n.attributes or [])]})
        _listing(n.children, d + 1, acc)
    return acc


def _project(nodes, fields):
    return [[n[f] for f in fields] for n in nodes]


LEXF = {'d': 'd', 'name': 'n', 'attrs': 'a', 'text': 't', 'sc': 'sc'}


def _lexed(text, fields):
    return [[n.get(LEXF[f]) for f in fields] for n in ph.tree(ph.lex(text)) if n['n'] != '#text']


def _chunk(items):
    emmet = common.import_emmet()
    from emmet.abbreviation import parse
    bad = []
    for item in items:
        s, exp, fields, limit, clause, printed = item[:6]
        snippets = item[6] if len(item) > 6 else None
        case = {'abbr': s, 'maxRepeat': limit, 'compared': list(fields)}
        try:
            with common.Alarm(10):
                tree = parse(s, {'max_repeat': limit}) if limit is not None else parse(s)
            got = {'kind': 'ok', 'nodes': _listing(tree.children, 0, [])}
        except Exception as ex:
            bad.append(('expand raised', dict(case, exception=type(ex).__name__, site=common.innermost_emmet_frame(ex))))
            continue
        e, g = _project(exp['nodes'], fields), _project(got['nodes'], fields)
        if e != g:
            bad.append((clause, dict(case, expected=e, actual=g)))
            continue
        if printed == '' and exp['nodes']:
            continue          # tree-only instance
        # the printed markup (AbbrPrint.tla) against expand(), both read by the tag lexer and compared on the same components
        cfg = {'options': {'output.format': False, 'output.selfClosingStyle': 'xhtml'}}
        if snippets:
            cfg['snippets'] = snippets          # names of the instance that are snippet keys are defined as themselves: plain elements
        if limit is not None:
            cfg['maxRepeat'] = limit
        try:
            with common.Alarm(10):
                text = emmet.expand(s, cfg)
        except Exception as ex:
            bad.append(('expand raised', dict(case, exception=type(ex).__name__, site=common.innermost_emmet_frame(ex))))
            continue
        try:
            want = _lexed(printed, fields)
        except ph.LexError:
            if text != printed:       # markup the lexer does not read (text with "<"): the strings themselves must agree
                bad.append((clause.split(' (')[0] + ' (output of expand)', dict(case, expected_output=printed, actual_output=text)))
            continue
        try:
            have = _lexed(text, fields)
        except ph.LexError as ex:
            bad.append(('output is not well-formed markup', dict(case, output=text, lexer=str(ex))))
            continue
        if want != have:
            bad.append((clause.split(' (')[0] + ' (output of expand)', dict(case, expected=want, actual=have, expected_output=printed, actual_output=text)))
    return bad


def differential(out, name, consts, fields, clause, limit=None, simulate=None, depth=None, cap=None, nontrivial=None, tree_only=False, snippets=None):
    """one instance: TLC run of AbbrGrammar with `consts`, every vector replayed through abbreviation.parse()"""
    c = dict(consts, RepeatLimit=UNLIMITED if limit is None else limit, SelfClosingStyle='xhtml', ScChild=False, TreeOnly=tree_only)
    kw = dict(constants=c, timeout=3000, heap='8g')
    if simulate:
        kw.update(simulate=simulate, depth=depth, seed=out.seed)
    r = common.run_tlc('AbbrGrammar', **kw)
    if r.violated:
        out.add_tlc(name, r)
        out.violation('spec-invariant %s violated in the model' % r.violated, {'instance': name, 'tlc': r.error[:3000]})
        return
    vecs = {}
    for v in r.vectors():
        vecs.setdefault(v['s'], v)
    r.tagged = {}
    if simulate and cap:
        vecs = dict(common.sample(vecs.items(), cap, out.seed, key=lambda kv: kv[0]))
    if r.mode == 'bfs':
        out.exhaustive = r.exhaustive if out.exhaustive is None else (out.exhaustive and r.exhaustive)
    notok = [s for s, v in vecs.items() if v['out']['kind'] != 'ok']
    if notok:          # Accepted is an invariant of the model; a vector that is not "ok" means the harness lost track
        raise common.MachineryError('AbbrGrammar printed a vector that the model does not accept: %r' % notok[:3])
    items = [(s, v['out'], fields, limit, clause, v['printed'], snippets) for s, v in vecs.items()]
    bad = common.pool_map(_chunk, items, chunk=1500)
    out.add_tlc(name, r, vectors=len(vecs), compared=list(fields), maxRepeat=limit)
    out.traces += len(items)
    out.evaluations += len(items)
    for s, v in vecs.items():
        if (nontrivial or (lambda s, v: len(v['out']['nodes']) >= 2))(s, v):
            out.distinct.add(('grammar', name, s))
    for what, case in bad:
        out.violation(what, case)
    ks = sorted(vecs, key=lambda a: zlib.crc32(a.encode()))
    for a in ks[:1]:
        out.sample({'abbr': a, 'model_tree': _project(vecs[a]['out']['nodes'], fields)[:6]})


def replay(case):
    c = case['case']
    from emmet.abbreviation import parse
    tree = parse(c['abbr'], {'max_repeat': c['maxRepeat']}) if c.get('maxRepeat') is not None else parse(c['abbr'])
    return 'abbreviation.parse(%r, maxRepeat=%r) -> %r\nexpected (model) %r' % (
        c['abbr'], c.get('maxRepeat'), _project(_listing(tree.children, 0, []), c['compared']), c.get('expected'))


# ----------------------------------------------------------------------------------------------------------------------
# HAML / Pug / Slim: the lines AbbrPrint.tla prints (IndentPrinted) against expand(), as (depth, text) pairs

def _lines(text, indent):
    out = []
    for line in text.split('\n'):
        k = 0
        while indent and line.startswith(indent):
            line = line[len(indent):]
            k += 1
        out.append([k, line.rstrip()])
    return out


def _indent_chunk(items):
    emmet = common.import_emmet()
    bad = []
    for s, model, rows in items:
        for syn, indent in rows:
            case = {'abbr': s, 'syntax': syn, 'indent': indent}
            try:
                with common.Alarm(10):
                    text = emmet.expand(s, {'syntax': syn, 'options': {'output.indent': indent}})
            except Exception as ex:
                bad.append(('expand raised', dict(case, exception=type(ex).__name__, site=common.innermost_emmet_frame(ex))))
                continue
            exp, got = _lines(model[syn], '\t'), _lines(text, indent)
            if exp != got:
                bad.append(('indent-lines (grammar)', dict(case, expected=exp, actual=got, output=text)))
    return bad


def indent_differential(out, name, consts, indents=('\t', '  ', 'xy '), per_vector=2):
    c = dict(consts, RepeatLimit=UNLIMITED, SelfClosingStyle='html', ScChild=True, TreeOnly=False)
    r = common.run_tlc('AbbrGrammar', constants=c, timeout=3000, heap='8g')
    if r.violated:
        out.add_tlc(name, r)
        out.violation('spec-invariant %s violated in the model' % r.violated, {'instance': name, 'tlc': r.error[:3000]})
        return
    vecs = {}
    for v in r.vectors():
        vecs.setdefault(v['s'], v)
    r.tagged = {}
    if r.mode == 'bfs':
        out.exhaustive = r.exhaustive if out.exhaustive is None else (out.exhaustive and r.exhaustive)
    items = []
    syns = ('pug', 'haml', 'slim')
    for s, v in vecs.items():
        h = zlib.crc32(s.encode()) + out.seed
        rows = [(syns[(h + j) % 3], indents[(h // 3 + j) % len(indents)]) for j in range(per_vector)]
        items.append((s, v['indent'], rows))
        out.evaluations += len(rows)
        if len(v['out']['nodes']) >= 2:
            for syn, _ in rows:
                out.distinct.add(('grammar', s, syn))
    bad = common.pool_map(_indent_chunk, items, chunk=1500)
    out.add_tlc(name, r, vectors=len(vecs))
    out.traces += len(items)
    for what, case in bad:
        out.violation(what, case)
    ks = sorted(vecs, key=lambda a: zlib.crc32(a.encode()))
    for a in ks[:1]:
        out.sample({'abbr': a, 'model_lines': {k: _lines(vecs[a]['indent'][k], '\t') for k in syns}})


def indent_replay(case):
    emmet = common.import_emmet()
    c = case['case']
    return 'expand(%r, syntax %s) ->\n%s\nexpected lines (model) %r' % (
        c['abbr'], c['syntax'], emmet.expand(c['abbr'], {'syntax': c['syntax'], 'options': {'output.indent': c['indent']}}), c.get('expected'))


# ----------------------------------------------------------------------------------------------------------------------
# tabstops: the numbered fields AbbrPrint.tla prints (PrintedF / IndentPrintedF) against expand() with a marking callback

import re
_FIELD = re.compile(r'\$\{(\d+)(?::([^}]*))?\}')


def _mark(index, placeholder, **kw):
    return '${%d:%s}' % (index, placeholder) if placeholder else '${%d}' % index


def _stops(text):
    return [[int(m.group(1)), m.group(2) or ''] for m in _FIELD.finditer(text)]


def _tabstop_chunk(items):
    emmet = common.import_emmet()
    bad = []
    for s, model, syns in items:
        for syn in syns:
            case = {'abbr': s, 'syntax': syn}
            o = {'output.field': _mark}
            if syn in ('html', 'htmlc'):
                o['output.format'] = False
            if syn == 'htmlc':
                o['comment.enabled'] = True
            try:
                with common.Alarm(10):
                    text = emmet.expand(s, {'syntax': 'html' if syn == 'htmlc' else syn, 'options': o})
            except Exception as ex:
                bad.append(('expand raised', dict(case, exception=type(ex).__name__, site=common.innermost_emmet_frame(ex))))
                continue
            exp, got = _stops(model[syn]), _stops(text)
            if exp != got:
                bad.append(('tabstop-numbering (grammar)', dict(case, expected=exp, actual=got, output=text, model_output=model[syn])))
    return bad


def tabstop_differential(out, name, consts, per_vector=2):
    c = dict(consts, RepeatLimit=UNLIMITED, SelfClosingStyle='html', ScChild=False, TreeOnly=False)
    r = common.run_tlc('AbbrGrammar', constants=c, timeout=3000, heap='8g')
    if r.violated:
        out.add_tlc(name, r)
        out.violation('spec-invariant %s violated in the model' % r.violated, {'instance': name, 'tlc': r.error[:3000]})
        return
    vecs = {}
    for v in r.vectors():
        vecs.setdefault(v['s'], v)
    r.tagged = {}
    if r.mode == 'bfs':
        out.exhaustive = r.exhaustive if out.exhaustive is None else (out.exhaustive and r.exhaustive)
    syns = ('html', 'pug', 'haml', 'slim', 'htmlc')           # htmlc: html with comment.enabled
    items = []
    for s, v in vecs.items():
        h = zlib.crc32(s.encode()) + out.seed
        rows = sorted(set(syns[(h + 3 * j) % 5] for j in range(per_vector)))
        items.append((s, v['marked'], rows))
        out.evaluations += len(rows)
        if len(_stops(v['marked']['html'])) >= 2:
            for syn in rows:
                out.distinct.add(('grammar', s, syn))
    bad = common.pool_map(_tabstop_chunk, items, chunk=1500)
    out.add_tlc(name, r, vectors=len(vecs))
    out.traces += len(items)
    for what, case in bad:
        out.violation(what, case)
    ks = sorted(vecs, key=lambda a: zlib.crc32(a.encode()))
    for a in ks[:1]:
        out.sample({'abbr': a, 'model_tabstops': {k: _stops(vecs[a]['marked'][k]) for k in syns}})


def tabstop_replay(case):
    emmet = common.import_emmet()
    c = case['case']
    o = {'output.field': _mark}
    if c['syntax'] in ('html', 'htmlc'):
        o['output.format'] = False
    if c['syntax'] == 'htmlc':
        o['comment.enabled'] = True
    return 'expand(%r, syntax %s) ->\n%s\nexpected tabstops (model) %r' % (
        c['abbr'], c['syntax'], emmet.expand(c['abbr'], {'syntax': 'html' if c['syntax'] == 'htmlc' else c['syntax'], 'options': o}), c.get('expected'))
