"""C14 - a snippet alias expands exactly like its definition, and resolution ends.

AbbrResolve.tla: every user snippet table over 2-3 keys and the definition shapes (name, with attribute, with text, with a
child, two siblings - over the keys themselves, so cycles of every kind occur) x twelve alias uses (plain, child, class,
text, repeater, self-closing, attribute + child, two top-level items, several class mentions, class + overriding attribute,
repeated attribute + repeater + child, repeated class on an alias with text); TLC checks the stack depth bound and "alias =
definition written in place" and prints the expected listing; replayed through expand(use, {'snippets': table}).
Built-in tables: every key of the html / xsl / pug tables is expanded as alias and as its definition (and with class, text,
repeater, child appended where the definition is a single element) under the matching syntax; the outputs must be equal.
"""
import re
import zlib

import common
import project_html as ph

NONE = '<none>'


def _listing(text):
    lst = [n for n in ph.tree(ph.lex(text)) if n['n'] != '#text']
    out = []
    for i, n in enumerate(lst):
        has_kids = i + 1 < len(lst) and lst[i + 1]['d'] > n['d']
        out.append({'d': n['d'], 'n': n['n'], 'attrs': [[a[0], a[2]] for a in n['a']], 'text': n['t'], 'leaf': not has_kids, 'sc': n['sc']})
    return out


def _user_chunk(vecs):
    import emmet
    bad = []
    for v in vecs:
        table = dict(v['t'])
        case = {'snippets': table, 'abbr': v['abbr'], 'reverseAttributes': v['reverse']}
        try:
            text = common.guarded(lambda: emmet.expand(v['abbr'], {'snippets': dict(table), 'options': {
                'output.format': False, 'output.selfClosingStyle': 'xhtml', 'output.reverseAttributes': v['reverse']}}), 10)
        except TimeoutError:
            bad.append(('resolution does not terminate', case))
            continue
        except RecursionError:
            bad.append(('resolution does not terminate (RecursionError)', case))
            continue
        except Exception as ex:
            bad.append(('expand raised', dict(case, exception=type(ex).__name__, site=common.innermost_emmet_frame(ex))))
            continue
        # the same table handed over in other forms gives the same expansion: through the global configuration of a ready-made
        # Config, and - with a text to wrap - through the global configuration of a dict call
        opts = {'output.format': False, 'output.selfClosingStyle': 'xhtml', 'output.reverseAttributes': v['reverse']}
        k = zlib.crc32((v['abbr'] + repr(sorted(table.items()))).encode()) % 3
        try:
            if k == 0:
                alt = common.guarded(lambda: emmet.expand(v['abbr'], emmet.Config({'options': opts}, {'markup': {'snippets': dict(table)}})), 10)
                if alt != text:
                    bad.append(('alias-expansion (table through the global configuration of a Config)', dict(case, expected=text, actual=alt)))
            elif k == 1:
                a1 = common.guarded(lambda: emmet.expand(v['abbr'], {'text': 'W w', 'snippets': dict(table), 'options': opts}), 10)
                a2 = common.guarded(lambda: emmet.expand(v['abbr'], {'text': 'W w', 'options': opts}, {'html': {'snippets': dict(table)}}), 10)
                if a1 != a2:
                    bad.append(('alias-expansion (table through the global configuration, with a text to wrap)', dict(case, expected=a1, actual=a2)))
        except Exception as ex:
            bad.append(('expand raised', dict(case, exception=type(ex).__name__, site=common.innermost_emmet_frame(ex), form='table through the global configuration')))
        try:
            got = _listing(text)
        except ph.LexError as ex:
            bad.append(('output is not well-formed markup', dict(case, output=text, lexer=str(ex))))
            continue
        exp = v['out']
        ok = len(got) == len(exp)
        if ok:
            for g, e in zip(got, exp):
                ea = [list(a) for a in e['attrs']]
                et = '' if e['text'] == NONE else e['text']
                if g['d'] != e['d'] or g['n'] != e['n'] or g['attrs'] != ea or (g['leaf'] and g['text'] != et) or \
                        (not g['leaf'] and not g['text'].startswith(et)) or \
                        (g['leaf'] and not et and bool(e['sc']) != g['sc']):
                    ok = False
                    break
        if not ok:
            bad.append(('alias-expansion', dict(case, expected=[[e['d'], e['n'], e['attrs'], e['text']] for e in exp],
                                                actual=[[g['d'], g['n'], g['attrs'], g['text']] for g in got], output=text)))
    return bad


SINGLE = re.compile(r'^[\w:!-]+(\[[^\]]*\])?/?$')


def _forms(key, definition):
    """(alias form, definition form) pairs"""
    forms = [(key, definition)]
    if SINGLE.match(definition):
        sc = definition.endswith('/')
        core = definition[:-1] if sc else definition
        tail = '/' if sc else ''
        forms.append((key + '.zz', core + '.zz' + tail))
        forms.append((key + '*2', core + tail + '*2'))
        forms.append((key + '[data-z=1]', core + '[data-z=1]' + tail))
        if not sc:
            forms.append((key + '{tt}', core + '{tt}'))
            forms.append((key + '>zz', core + '>zz'))
            forms.append(('zz>' + key + '+' + key, 'zz>' + core + '+' + core))
    return forms


def _builtin_chunk(items):
    import emmet
    bad = []
    n = 0
    for syntax, key, definition in items:
        for a, d in _forms(key, definition):
            # definitions that read variables are also compared under a call that sets one variable (the others come from other layers)
            for fmt, variables in ((False, None), (True, None)) + (((False, {'lang': 'de'}),) if '${' in definition else ()):
                cfg = {'syntax': syntax, 'options': {'output.format': fmt}}
                if variables:
                    cfg['variables'] = dict(variables)
                case = {'syntax': syntax, 'key': key, 'definition': definition, 'alias_form': a, 'definition_form': d, 'format': fmt,
                        'variables': variables}
                try:
                    with common.Alarm(10):
                        ra = emmet.expand(a, dict(cfg))
                        rd = emmet.expand(d, dict(cfg))
                    n += 1
                except Exception as ex:
                    bad.append(('expand raised', dict(case, exception=type(ex).__name__, site=common.innermost_emmet_frame(ex))))
                    continue
                if ra != rd:
                    bad.append(('builtin alias # definition', dict(case, alias_output=ra, definition_output=rd)))
    return [('COUNT', n)] + bad


def run(out):
    quick = out.tier == 'quick'
    out.rule = ('user tables: one case per (table, alias use) of AbbrResolve.tla; built-ins: one case per (syntax, key, form, format) over every '
                'key of the html, xsl and pug snippet tables; non-trivial = the table refers to one of its own keys / every built-in case; '
                'distinct by (table, use) resp. (syntax, form)')
    out.assumptions = ['the self-closing mark is compared through the printed markup (an element with content prints its closing tag)',
                       'built-in forms with modifiers are built textually only for definitions that are a single element']
    allshapes = {"leaf", "attr", "cls", "impl", "implchild", "text", "child", "siblings"}
    insts = [('two-keys-all-uses', dict(constants={'Keys': {"k1", "k2"}, 'Plain': {"x"}, 'DefShapes': allshapes, 'UseIdx': set(range(1, 13)), 'Reverses': {False, True}})),
             ('three-keys', dict(constants={'Keys': {"k1", "k2", "k3"}, 'Plain': {"x"}, 'DefShapes': {"leaf", "child"} if quick else {"leaf", "child", "siblings"},
                                            'UseIdx': {1, 2, 8, 10} if quick else {1, 2, 5, 8, 10, 11}, 'Reverses': {False}}))]
    for name, kw in insts:
        r = common.run_tlc('AbbrResolve', timeout=3000, heap='12g', **kw)
        if r.violated:
            out.add_tlc(name, r)
            out.violation('spec-invariant %s violated in the model' % r.violated, {'instance': name, 'tlc': r.error[:3000]})
            continue
        vecs = r.vectors()
        out.exhaustive = r.exhaustive if out.exhaustive is None else (out.exhaustive and r.exhaustive)
        bad = common.pool_map(_user_chunk, vecs, chunk=1000)
        out.add_tlc(name, r, vectors=len(vecs), max_stack_depth=max(v['md'] for v in vecs))
        out.traces += len(vecs)
        out.evaluations += len(vecs)
        for v in vecs:
            if any(k in d for d in v['t'].values() for k in v['t']):
                out.distinct.add((tuple(sorted(v['t'].items())), v['abbr'], v['reverse']))
        for what, case in bad:
            out.violation(what, case)
        v = vecs[zlib.crc32(name.encode()) % len(vecs)]
        out.sample({'snippets': v['t'], 'abbr': v['abbr'], 'expected': [[e['d'], e['n'], e['attrs'], e['text']] for e in v['out']]})
    # ---- built-in tables (keys split at | by the harness' own rule)
    from emmet.snippets.html import snippets as html_raw
    from emmet.snippets.xsl import snippets as xsl_raw
    from emmet.snippets.pug import snippets as pug_raw
    items = []
    for syntax, raw in (('html', html_raw), ('xsl', xsl_raw), ('pug', pug_raw)):
        for k, d in raw.items():
            for key in k.split('|'):
                items.append((syntax, key, d))
    res = common.pool_map(_builtin_chunk, items, chunk=20)
    n = 0
    for what, case in res:
        if what == 'COUNT':
            n += case
            continue
        out.violation(what, case)
    out.parts.append({'instance': 'builtin-tables', 'keys': len(items), 'comparisons': n})
    out.evaluations += n
    out.traces += len(items)
    for it in items:
        out.distinct.add(it[:2])
    out.sample({'builtin': items[3], 'forms': _forms(items[3][1], items[3][2])[:3]})


def replay(case):
    import emmet
    c = case['case']
    if 'snippets' in c:
        return 'expand(%r, snippets=%r) -> %r\nexpected %r' % (c['abbr'], c['snippets'],
                                                              emmet.expand(c['abbr'], {'snippets': c['snippets'], 'options': {'output.format': False, 'output.reverseAttributes': bool(c.get('reverseAttributes'))}}), c.get('expected'))
    cfg = {'syntax': c['syntax'], 'options': {'output.format': c['format']}}
    if c.get('variables'):
        cfg['variables'] = dict(c['variables'])
    return 'alias %r -> %r\ndefinition %r -> %r' % (c['alias_form'], emmet.expand(c['alias_form'], dict(cfg)), c['definition_form'], emmet.expand(c['definition_form'], dict(cfg)))
