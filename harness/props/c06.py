"""C06 - a stylesheet snippet is always reachable by its own key.

The raw snippet table of the tree under test is dumped to JSON and read by CssSnippets.tla, which splits keys and definitions
by its own rules, evaluates calculate_score / find_best_match with exact rationals on the whole table (OwnKey,
NoOtherDirectHit, KeywordSelf) and prints per key what expanding it must give.  Replay: expand(key) for every key x five
syntaxes x {default, marking} field callback; key:KW and key-KW for every dash-free keyword in lower / upper / capitalised
form; the same again for a table with user entries (override, new property key, new raw key); section / property scopes.
"""
import json
import os
import re
import shutil
import tempfile

import common

SYNTAX = {'css': (': ', ';'), 'scss': (': ', ';'), 'sass': (': ', ''), 'less': (': ', ';'), 'stylus': (' ', '')}
USER = {'pos': 'float:left|right', 'zzq': 'zoom:2|3', 'zzr': 'hello ${1:w} ${2}', 'c': 'cursor:help|move', 'ovh': 'overflow:hidden',
        'mTq': 'margin-top:auto|0', 'Zq': 'z-index:1|2',
        # first alternative of several tokens / a function call with arguments
        'zzs': 'a {\n${1}\n}', 'tsq': 'text-shadow:${1:h}${2:v} ${3:#000}', 'mxq': 'margin:0 auto|0', 'fnq': 'transform:rotate(10deg, 2) x|none', 'bdq': 'border:1px solid #f00|0',
        # several declarations on one line: a semicolon is no part of a property value, the definition is a raw snippet
        'trq': 'overflow:hidden;text-overflow:ellipsis'}          # keys are matched without regard to letter case
FIELD = re.compile(r'\$\{(\d+)(?::([^}]*))?\}')


def _mark(index, placeholder, **kw):
    return '${%d:%s}' % (index, placeholder) if placeholder else '${%d}' % index


def _norm(s):
    """white space is compared: runs of it count as one blank, and none is required next to a bracket or comma of a function call"""
    s = re.sub(r'\s+', ' ', s.strip())
    return re.sub(r' ?([(),]) ?', r'\1', s)


def _strip_fields(s):
    return FIELD.sub(lambda m: m.group(2) or '', s)


def _chunk(items):
    import emmet
    bad = []
    n = 0
    caches = {}
    # what the parsing functions hand out belongs to the caller (configuration without a cache): changed in place it must not
    # show in any later expansion
    try:
        c0 = emmet.Config({'type': 'stylesheet'})
        common.scramble(emmet.stylesheet_abbreviation('pos:a+bd1-s+@kf', c0))
        lst = emmet.parse_stylesheet_snippets(c0.snippets)
        common.scramble(lst[: len(lst) // 2])
        del lst[::3]
    except Exception as e:
        bad.append(('expand raised', {'key': '(parsing functions)', 'exception': type(e).__name__}))
    for v, user, syntaxes in items:
        key = v['key']
        for syn in syntaxes:
            between, after = SYNTAX[syn]
            for marking in (False, True):
                # one cache per syntax, shared by the calls with the built-in table and with the user table (a cache never changes a result)
                cfg = {'type': 'stylesheet', 'syntax': syn, 'cache': caches.setdefault(syn, {})}
                plain = dict(cfg)
                if user:
                    cfg['snippets'] = dict(user)
                if marking:
                    cfg['options'] = {'output.field': _mark}
                case = {'key': key, 'syntax': syn, 'marking_field': marking, 'user_snippets': user or None}

                def ex(abbr, extra=None):
                    c = dict(cfg)
                    if extra:
                        c.update(extra)
                    with common.Alarm(10):
                        if user:
                            # the same call with the built-in table and the same cache comes first
                            w = dict(plain)
                            if extra:
                                w.update(extra)
                            try:
                                emmet.expand(abbr, w)
                            except Exception:
                                pass
                        return emmet.expand(abbr, c)
                try:
                    got = ex(key)
                    n += 1
                except Exception as e:
                    bad.append(('expand raised', dict(case, exception=type(e).__name__, site=common.innermost_emmet_frame(e))))
                    continue
                if v['kind'] == 'prop':
                    head = v['prop'] + between
                    ok = got.startswith(head) and got.endswith(after) and '\n' not in got
                    if ok and not v['quotedField']:
                        val = got[len(head):len(got) - len(after)]
                        if marking and v['nalts'] == 0:
                            ok = bool(FIELD.fullmatch(val))             # no value listed: a tabstop
                        elif marking and not FIELD.search(val) and v['nalts'] > 1:
                            ok = False                                   # several alternatives: the first one is offered in a tabstop
                        if ok:
                            ok = _norm(_strip_fields(val)) == _norm(v['first'])
                        if ok and marking and '${' in v['firstraw'] and '(' not in v['firstraw']:
                            # the first alternative is written with tabstops of its own: they come out where they were written
                            # (next to each other, next to a word, separated by a blank) - compared with the field numbers removed
                            ok = _norm(FIELD.sub(lambda m: '${:%s}' % (m.group(2) or ''), val)) == _norm(FIELD.sub(lambda m: '${:%s}' % (m.group(2) or ''), v['firstraw']))
                    if not ok:
                        bad.append(('own-key', dict(case, expected=head + v['first'] + after, actual=got)))
                else:
                    exp = _strip_fields(v['body'])
                    if not v['quotedField'] and _strip_fields(got) != exp:          # character for character, line breaks included
                        bad.append(('own-key (raw snippet)', dict(case, expected=exp, actual=got)))
                # keywords typed in full after the key
                if v['kind'] == 'prop' and re.fullmatch(r'[A-Za-z]+', key) and not marking:
                    for kw in v['keywords']:
                        for form in (kw, kw.upper(), kw.capitalize()):
                            for sep in (':', '-'):
                                ab = key + sep + form
                                try:
                                    g = ex(ab)
                                    n += 1
                                except Exception as e:
                                    bad.append(('expand raised', dict(case, abbr=ab, exception=type(e).__name__)))
                                    continue
                                exp = v['prop'] + between + kw + after
                                if g != exp:
                                    bad.append(('keyword', dict(case, abbr=ab, expected=exp, actual=g)))
                # function keywords typed by their name: the whole call of the table is printed
                if v['kind'] == 'prop' and re.fullmatch(r'[A-Za-z]+', key) and not marking:
                    names = [f['name'].lower() for f in v['fnkeywords']] + [k.lower() for k in v['keywords']]
                    for f in v['fnkeywords']:
                        if names.count(f['name'].lower()) != 1 or '(' in f['out'][len(f['name']) + 1:] or "'" in f['out'] or '"' in f['out']:
                            continue          # the same name listed twice, nested calls, quoted arguments: not judged
                        for form in (f['name'], f['name'].upper()):
                            ab = key + ':' + form
                            try:
                                g = ex(ab)
                                n += 1
                            except Exception as e:
                                bad.append(('expand raised', dict(case, abbr=ab, exception=type(e).__name__)))
                                continue
                            exp = v['prop'] + between + f['out'] + after
                            if _norm(g) != _norm(exp):
                                bad.append(('keyword (function)', dict(case, abbr=ab, expected=exp, actual=g, flags={'keyword_name_has_digit': bool(f.get('digit'))})))
                # value scope: the context names a property - a keyword of the (first, in key order) snippet of that property typed in
                # full, in upper case, resolves to that keyword
                if v.get('valueOwner') and not marking and syn == 'css' and not user:
                    for kw in v['keywords'][:6]:
                        try:
                            g = ex(kw.upper(), {'context': {'name': v['prop']}})
                            n += 1
                            if g != kw:
                                bad.append(('scope', dict(case, scope=v['prop'], abbr=kw.upper(), expected=kw, actual=g, why='value scope')))
                        except Exception as e:
                            bad.append(('expand raised', dict(case, scope=v['prop'], abbr=kw.upper(), exception=type(e).__name__)))
                # scopes
                if not marking and syn == 'css' and key != 'lg':      # 'lg' is the hard-wired gradient shortcut, resolved before table and scope
                    try:
                        sec = ex(key, {'context': {'name': '@@section'}})
                        prp = ex(key, {'context': {'name': '@@property'}})
                        n += 2
                    except Exception as e:
                        bad.append(('expand raised', dict(case, scope=True, exception=type(e).__name__)))
                        continue
                    # the scope holds for every property of a list: the same key twice gives the same line twice
                    if re.fullmatch(r'[A-Za-z@:-]+', key):
                        try:
                            scope = {'context': {'name': '@@property' if v['kind'] == 'prop' else '@@section'}}
                            twice = ex(key + '+' + key, scope)
                            one = prp if v['kind'] == 'prop' else sec
                            n += 1
                            if _strip_fields(twice) != _strip_fields(one) + '\n' + _strip_fields(one):
                                bad.append(('scope', dict(case, abbr=key + '+' + key, scope=scope['context']['name'], expected=one + '\n' + one, actual=twice)))
                        except Exception as e:
                            bad.append(('expand raised', dict(case, scope=True, abbr=key + '+' + key, exception=type(e).__name__)))
                    if v['kind'] == 'prop':
                        if sec.startswith(v['prop'] + between):
                            bad.append(('scope', dict(case, scope='@@section', actual=sec, why='a property snippet matched in section scope')))
                        if prp != got:
                            bad.append(('scope', dict(case, scope='@@property', expected=got, actual=prp)))
                    else:
                        if sec != got:
                            bad.append(('scope', dict(case, scope='@@section', expected=got, actual=sec)))
                        if _norm(prp) == _norm(got) and got:
                            bad.append(('scope', dict(case, scope='@@property', actual=prp, why='a raw snippet matched in property scope')))
    return [('COUNT', n)] + bad


def _table_vectors(out, name, table):
    tmp = tempfile.mkdtemp(prefix='verif-c06-')
    try:
        path = os.path.join(tmp, 'table.json')
        with open(path, 'w') as fh:
            json.dump([{'keys': k, 'def': d} for k, d in table], fh)
        r = common.run_tlc('CssSnippets', env={'TABLE_FILE': path}, timeout=1200, workers=1)   # deep recursion over the table overflows the stack of TLC worker threads
    finally:
        shutil.rmtree(tmp, ignore_errors=True)
    if r.violated:
        out.add_tlc(name, r)
        out.violation('spec-invariant %s violated on the snippet table' % r.violated, {'instance': name, 'tlc': r.error[:3000]})
        return None
    vecs = {}
    for v in r.vectors():
        vecs.setdefault(v['key'], v)
    out.add_tlc(name, r, keys=len(vecs), property_snippets=sum(1 for v in vecs.values() if v['kind'] == 'prop'),
                keywords=sum(len(v['keywords']) for v in vecs.values()))
    out.exhaustive = True if out.exhaustive is None else out.exhaustive
    return vecs


def run(out):
    quick = out.tier == 'quick'
    out.rule = ('one case per (key of the split snippet table, syntax, field callback) plus one per (key, keyword, letter case, separator) '
                'and per (key, scope); all keys and all dash-free keywords of the table are enumerated; distinct by expanded abbreviation')
    out.assumptions = ['the value is compared with blanks removed and tabstops replaced by their placeholders ("animdur" prints "0 s")',
                       'definitions with a tabstop inside a quoted string ("cnt", "@ff") are only checked for property and shape',
                       'concatenated key+keyword forms ("ovscroll") are fuzzy by design and not asserted',
                       'scopes are not asserted for "lg" (gradient shortcut is resolved before the snippet table)']
    import emmet  # noqa
    from emmet.snippets.css import snippets as raw
    builtin = list(raw.items())
    merged = [(k, d) for k, d in builtin if not any(x in USER for x in k.split('|'))]
    for k, d in builtin:
        ks = [x for x in k.split('|') if x not in USER]
        if ks and len(ks) != len(k.split('|')):
            merged.append(('|'.join(ks), d))
    merged += list(USER.items())
    vec2 = _table_vectors(out, 'builtin+user-table', merged)
    if quick:
        # one TLC run per check in the quick tier: entries the user table does not touch are the built-in ones
        vec1 = {k: v for k, v in vec2.items() if k not in USER} if vec2 else None
    else:
        vec1 = _table_vectors(out, 'builtin-table', builtin)
    for vecs in (vec1, vec2):
        first = {}
        for k in sorted(vecs or {}):
            v = vecs[k]
            v['valueOwner'] = bool(v['kind'] == 'prop' and first.setdefault(v['prop'], k) == k)
    syn_all = list(SYNTAX)
    items = []
    if vec1:
        for i, (k, v) in enumerate(sorted(vec1.items())):
            syns = syn_all if not quick else ['css', syn_all[1 + (i + out.seed) % 4]]
            items.append((v, None, syns))
    if vec2:
        for i, (k, v) in enumerate(sorted(vec2.items())):
            if quick and k not in USER and (i + out.seed) % 6:
                continue
            items.append((v, USER, ['css'] if quick else ['css', 'stylus']))
    res = common.pool_map(_chunk, items, chunk=12)
    for what, case in res:
        if what == 'COUNT':
            out.evaluations += case
            continue
        out.violation(what, case)
    out.traces += len(items)
    out.distinct_count = out.evaluations
    if vec1:
        for k in ('pos', 'bd', '@kf'):
            if k in vec1:
                out.sample({'key': k, 'expected': {x: vec1[k][x] for x in ('kind', 'prop', 'first', 'keywords')}})


def replay(case):
    import emmet
    c = case['case']
    cfg = {'type': 'stylesheet', 'syntax': c['syntax']}
    if c.get('user_snippets'):
        cfg['snippets'] = c['user_snippets']
    if c.get('marking_field'):
        cfg['options'] = {'output.field': _mark}
    if c.get('scope') and c['scope'] is not True:
        cfg['context'] = {'name': c['scope']}
    ab = c.get('abbr', c['key'])
    return 'expand(%r, %r) -> %r   expected %r' % (ab, cfg, emmet.expand(ab, cfg), c.get('expected'))
