"""C04 - text content is placed verbatim: inline text and wrapped lines.

AbbrText.tla : every balanced payload over the punctuation alphabet (plain characters, nested braces, backslash escapes);
               TLC checks tokenizer-in-text-context machine = TextOf contract; each payload is replayed at nine positions
               where text may appear and the element's content must equal TextOf(payload) byte for byte.
AbbrWrap.tla : every list of wrap lines over 17 line atoms x 18 abbreviation templates (implicit repeater on elements and
               groups, $# placeholders in attribute and text, no repeater); TLC checks converter loop = loop-free contract;
               each vector is replayed through expand(abbr, {'text': lines}).
"""
import zlib

import common
import grammar
import project_html as ph

NONE = '<none>'
UNI = 'é日'          # the model writes "~" for a non-ASCII letter pair

POSITIONS = [
    ('element text', 'x{%s}', 'x'),
    ('text after attributes', 'x[a=b]{%s}', 'x'),
    ('text node', '{%s}', None),
    ('text before children', 'x{%s}>y', 'x'),
    ('text node as child', 'x>{%s}', 'x'),
    ('text on a sibling', 'y+x.c{%s}', 'x'),
    ('text in a group', '(x{%s})+y', 'x'),
    ('text on an element with the self-closing mark', 'y>x{%s}/', 'x'),
    ('text on a void-element snippet', 'y>br{%s}+z', 'br'),
]


def _sub(s):
    return s.replace('~', UNI)


def _text_chunk(items):
    import emmet
    bad = []
    for v, fmt in items:
        p, t = _sub(v['p']), _sub(v['t'])
        for pname, tmpl, el in POSITIONS:
            abbr = tmpl % p
            case = {'abbr': abbr, 'payload': p, 'position': pname, 'format': fmt, 'expected_text': t}
            try:
                with common.Alarm(10):
                    out = emmet.expand(abbr, {'options': {'output.format': fmt, 'output.selfClosingStyle': 'xhtml'}})
            except Exception as ex:
                bad.append(('expand raised', dict(case, exception=type(ex).__name__, site=common.innermost_emmet_frame(ex))))
                continue
            if el is None:
                got = out
            else:
                try:
                    lst = ph.tree(ph.lex(out))
                    xs = [n for n in lst if n['n'] == el]
                    if len(xs) != 1:
                        raise ph.LexError('expected one <%s>' % el)
                    got = xs[0]['t']
                    if fmt:
                        # with formatting on the formatter may put line breaks and tab indentation around a text node or between text
                        # and children; payloads contain neither character
                        got = got.strip('\n\t')
                except ph.LexError as ex:
                    bad.append(('output is not well-formed markup', dict(case, output=out, lexer=str(ex))))
                    continue
            if got != t:
                bad.append(('text-verbatim', dict(case, actual_text=got, output=out)))
    return bad


MULTILINE = ['a\nb', 'a\n', '\nb', 'a\n\nb', 'a b\r\nc\r\n', 'a\rb', 'a\n\n', 'a\n\tb', '\tq\nr\n\t']      # the last two: lines of the text that start with a tab


def _multiline_cases():
    """text with line breaks (format off): every line of the payload comes out as a line of its own - also a last, empty one -
    between the tags of its element, indented by white space only"""
    import re
    import emmet
    bad = []
    n = 0
    for p in MULTILINE:
        want = re.split(r'\r\n|\r|\n', p)
        for abbr, el in (('x{%s}' % p, 'x'), ('{%s}' % p, None), ('y>x.c{%s}' % p, 'x')):
            n += 1
            case = {'abbr': abbr, 'payload': p, 'position': 'multi-line text', 'format': False, 'expected_text': want}
            try:
                out = emmet.expand(abbr, {'options': {'output.format': False, 'output.indent': '  '}})      # the formatter indents with blanks, a tab is text
                if el is None:
                    lines = out.split('\n')
                else:
                    xs = [k for k in ph.tree(ph.lex(out)) if k['n'] == el]
                    lines = xs[0]['t'].split('\n')
                    if lines[0].strip(' ') != '' or lines[-1].strip(' ') != '':
                        bad.append(('text-verbatim', dict(case, actual_text=lines, output=out)))
                        continue
                    lines = lines[1:-1]
                got = [l.lstrip(' ') for l in lines]
            except Exception as ex:
                bad.append(('expand raised', dict(case, exception=type(ex).__name__)))
                continue
            if got != want:
                bad.append(('text-verbatim', dict(case, actual_text=got, output=out)))
    return n, bad


def _lines_of(s):
    return [l.strip() for l in s.strip().split('\n')] if s.strip() else []


def _wrap_chunk(vecs):
    import emmet
    bad = []
    for v in vecs:
        lines = [_sub(l) for l in v['lines']]
        variants = [('list', lines)]
        if not v['implicit']:
            variants.append(('string', '\n'.join(lines)))
        for kind, text in variants:
            cfg = {'text': text, 'options': {'output.format': False}}
            case = {'abbr': v['abbr'], 'text': text}
            try:
                with common.Alarm(10):
                    out = emmet.expand(v['abbr'], cfg)
            except Exception as ex:
                bad.append(('expand raised', dict(case, exception=type(ex).__name__, site=common.innermost_emmet_frame(ex))))
                continue
            if cfg['text'] != text:
                bad.append(('caller text modified', dict(case, after=repr(cfg['text']))))
            # the supplied text survives a call that fails, too (the same configuration object is used again)
            try:
                emmet.expand(v['abbr'] + '[title="x', cfg)
            except Exception:
                pass
            if cfg.get('text') != text:
                bad.append(('caller text modified', dict(case, after=repr(cfg.get('text')), by='a call that raised a parse error')))
                cfg['text'] = text
            try:
                lst = [n for n in ph.tree(ph.lex(out)) if n['n'] != '#text']
            except ph.LexError as ex:
                bad.append(('output is not well-formed markup', dict(case, output=out, lexer=str(ex))))
                continue
            exp = v['out']
            ok = len(lst) == len(exp)
            if ok:
                for g, e in zip(lst, exp):
                    attrs = {a[0]: a[2] for a in g['a']}
                    et = _sub(e['text'])
                    if g['d'] != e['d'] or g['n'] != e['n']:
                        ok = False
                    elif e['title'] != NONE and attrs.get('title') != _sub(e['title']):
                        ok = False
                    elif e['cls'] != NONE and attrs.get('class') != e['cls']:
                        ok = False
                    elif v['implicit'] and '\n' not in et and g['t'] != et:
                        ok = False
                    elif (not v['implicit'] or '\n' in et) and _lines_of(g['t']) != _lines_of(et):       # a text of several lines is laid out with indentation
                        ok = False
                    if not ok:
                        break
            if not ok:
                bad.append(('wrap-text', dict(case, expected=[[e['d'], e['n'], e['title'], e['cls'], _sub(e['text'])] for e in exp],
                                              actual=[[g['d'], g['n'], g['a'], g['t']] for g in lst], output=out)))
    return bad


def run(out):
    quick = out.tier == 'quick'
    out.rule = ('inline: one case per (balanced payload generated by AbbrText.tla, position, format); non-trivial = payload holds an escape, '
                'a nested brace or an operator character; wrap: one case per (template, line list) of AbbrWrap.tla; distinct by input')
    out.assumptions = ['"$" appears in payloads only escaped (unescaped "$" is numbering / fields: C02, C13); "<" is not generated (text that '
                       'starts like a block tag is laid out on its own lines by design)',
                       'wrap lines contain no double quote (attribute values are printed unescaped, the lexer could not delimit them)',
                       'multi-line insertions are compared as lists of trimmed lines (the formatter indents them)']
    nml, badml = _multiline_cases()
    out.evaluations += nml
    out.parts.append({'instance': 'multi-line-payloads', 'cases': nml, 'payloads': MULTILINE})
    for what, case in badml:
        out.violation(what, case)
    plain = {"a", "~", "*", "#", "@", "-", "+", ">", "^", "(", ")", "[", "]", "'", "\"", " ", ".", "/", "=", ":", "!", "1"}
    esc = {"BS", "{", "}", "$", "*", "a", "\"", "[", ">"}
    insts = [('payloads-exhaustive', dict(constants={'MaxUnits': 2 if quick else 3, 'Plain': plain, 'Esc': esc})),
             ('payloads-simulated', dict(constants={'MaxUnits': 9 if quick else 14, 'Plain': plain, 'Esc': esc},
                                         simulate=3 if quick else 60, depth=12 if quick else 18, seed=out.seed))]
    for name, kw in insts:
        r = common.run_tlc('AbbrText', timeout=3000, heap='12g', **kw)
        if r.violated:
            out.add_tlc(name, r)
            out.violation('spec-invariant %s violated in the model' % r.violated, {'instance': name, 'tlc': r.error[:3000]})
            continue
        vecs = {}
        for v in r.vectors():
            vecs.setdefault(v['p'], v)
        if r.mode == 'simulate':
            vecs = dict(common.sample(vecs.items(), 2500 if quick else 40000, out.seed, key=lambda kv: repr(kv[0])))
        if r.mode == 'bfs':
            out.exhaustive = r.exhaustive
        items = [(v, bool((zlib.crc32(p.encode()) + out.seed) & 1)) for p, v in vecs.items()]
        bad = common.pool_map(_text_chunk, items, chunk=400)
        out.add_tlc(name, r, payloads=len(vecs))
        out.traces += len(items) * len(POSITIONS)
        out.evaluations += len(items) * len(POSITIONS)
        for p in vecs:
            if any(c in p for c in '\\{}*>+^()[]'):
                out.distinct.add(('payload', p))
        for what, case in bad:
            out.violation(what, case)
        ks = sorted(vecs, key=lambda a: zlib.crc32(a.encode()))
        for p in ks[:2]:
            out.sample({'payload': p, 'text': vecs[p]['t']})

    atoms = {"a", " b ", "", "  ", "*c", "$x", "[d]", "a>b", "${1}", "$#", "it$$", "x y", "{z}", ".c", "eBSf", "'q'", "~"}
    winsts = [('wrap-exhaustive', dict(constants={'MaxLines': 2 if quick else 3, 'LineAtoms': atoms, 'TemplateIdx': set(range(1, 27))})),
              ('wrap-simulated', dict(constants={'MaxLines': 6, 'LineAtoms': atoms, 'TemplateIdx': set(range(1, 27))},
                                      simulate=3 if quick else 60, depth=7, seed=out.seed))]
    for name, kw in winsts:
        r = common.run_tlc('AbbrWrap', timeout=3000, heap='12g', **kw)
        if r.violated:
            out.add_tlc(name, r)
            out.violation('spec-invariant %s violated in the model' % r.violated, {'instance': name, 'tlc': r.error[:3000]})
            continue
        vecs = {}
        for v in r.vectors():
            vecs.setdefault((v['abbr'], tuple(v['lines'])), v)
        if r.mode == 'simulate':
            vecs = dict(common.sample(vecs.items(), 2500 if quick else 40000, out.seed, key=lambda kv: repr(kv[0])))
        bad = common.pool_map(_wrap_chunk, list(vecs.values()), chunk=400)
        out.add_tlc(name, r, vectors=len(vecs))
        out.traces += len(vecs)
        out.evaluations += len(vecs)
        for k in vecs:
            out.distinct.add(('wrap',) + k)
        for what, case in bad:
            out.violation(what, case)
        ks = sorted(vecs, key=lambda a: zlib.crc32(repr(a).encode()))
        for k in ks[:2]:
            out.sample({'abbr': k[0], 'lines': list(k[1]), 'expected': [[e['d'], e['n'], e['title'], e['text']] for e in vecs[k]['out']]})
    # ---- grammar-level differential: tokenizer + parser + convert() of the specification against abbreviation.parse()
    gq = dict(NameFr={"x", ""}, ModFr={"{t}", "{a>b+c}", "{aBS}b{c}d}", "{${1:p} q}", "{$# $$}", "{BSBS*[=]}", ".c", "{ sp }", "{}", "{a{$b}}", "{{${1}}z}"}, RepFr={"*2", "*"},
              OpFr={">", "+", "^"}, MaxGroups=1, MaxMods=2)
    grammar.differential(out, 'grammar-text', dict(gq, MaxFrag=5 if quick else 7), ('d', 'name', 'text'), 'text-verbatim (node tree of abbreviation.parse)')


def replay(case):
    if 'compared' in case.get('case', {}):
        return grammar.replay(case)
    import emmet
    c = case['case']
    if 'payload' in c:
        return 'expand(%r, format=%r) -> %r   expected text %r' % (c['abbr'], c['format'],
                                                                   emmet.expand(c['abbr'], {'options': {'output.format': c['format']}}), c['expected_text'])
    return 'expand(%r, text=%r) -> %r\nexpected %r' % (c['abbr'], c['text'], emmet.expand(c['abbr'], {'text': c['text'], 'options': {'output.format': False}}), c.get('expected'))
