"""C15 - HAML, Pug and Slim output has one line per element at its depth.

IndentFormat.tla (on top of AbbrTree.tla): decorated elements (id, classes, attributes, single / multi-line text, self-closing,
implicit and bare div) under > + ^ *N; TLC checks the tree invariants and that element lines follow the tree's depths, and
prints for pug, haml and slim the expected (depth, text) line list.  The real expand() output is split into lines, the
indentation is counted in units of the configured indent string, and the lines must be equal; the depth listing is also
compared with the tag listing of the real HTML output for the same abbreviation.
"""
import zlib

import common
import grammar
import project_html as ph

INDENTS = ['\t', '  ', 'xy ']


def _chunk(items):
    import emmet
    bad = []
    shared = {}          # syntax -> the caller's configuration dict, used again and again; its options are changed in place
    for v, rows in items:
        for si, indent in rows:
            blk = v['lines'][si]
            syn = blk['syn']
            exp = [(d, s.rstrip()) for d, s in blk['ls']]
            case = {'abbr': v['abbr'], 'syntax': syn, 'indent': indent}
            # every fourth case also sets output.tagCase: whatever it does to the letters of a name, div is still left out next to an
            # id or class (lines are then compared without regard to letter case)
            upper = zlib.crc32((v['abbr'] + syn).encode()) % 4 == 0 and not any(c.isupper() for c in v['abbr'])
            opts = {'output.indent': indent}
            if upper:
                opts['output.tagCase'] = 'upper'
                case['tagCase'] = 'upper'
            try:
                with common.Alarm(10):
                    cfg = shared.setdefault(syn, {'syntax': syn, 'options': {}})
                    if zlib.crc32(v['abbr'].encode()) % 2 == 0:
                        # the call before this one used the same dict with another indentation (changed in place afterwards)
                        cfg['options'].clear()
                        cfg['options'].update({'output.indent': '@@@', 'output.tagCase': 'upper'})
                        emmet.expand(v['abbr'], cfg)
                    cfg['options'].clear()
                    cfg['options'].update(opts)
                    text = emmet.expand(v['abbr'], cfg)
                    if upper:
                        text = text.lower()
                    html = emmet.expand(v['abbr'], {'options': {'output.format': False}})
            except Exception as ex:
                bad.append(('expand raised', dict(case, exception=type(ex).__name__, site=common.innermost_emmet_frame(ex))))
                continue
            got = []
            okparse = True
            for line in text.split('\n'):
                k = 0
                while line.startswith(indent):
                    line = line[len(indent):]
                    k += 1
                if line[:1] in (' ', '\t') and line.strip():
                    okparse = False
                got.append((k, line.rstrip()))
            # a line is the indent string repeated depth times followed by the text (counting units greedily is ambiguous when a
            # text line itself begins with blanks, as the padded blank line of HAML does)
            raw = text.split('\n')
            same = len(raw) == len(exp) and all(l.rstrip() == (indent * d + s).rstrip() for l, (d, s) in zip(raw, exp))
            if not same and (not okparse or got != exp):
                bad.append(('indent-lines', dict(case, expected=exp, actual=got, output=text)))
                continue
            try:
                hl = ph.names(ph.tree(ph.lex(html), ('br',)))
            except ph.LexError as ex:
                bad.append(('html output is not well-formed markup', dict(case, output=html, lexer=str(ex))))
                continue
            if [list(x) for x in hl] != [list(x) for x in v['tree']]:
                bad.append(('tree differs from the HTML output', dict(case, expected=v['tree'], html_listing=hl)))
    return bad


TEXT_NODE_CASES = [('div>{x}', [(0, 'div')], 0), ('div>{x}+p', [(0, 'div'), (1, 'p')], 0), ('div>p+{x}', [(0, 'div'), (1, 'p')], 1),
                   ('ul>li>{t}+a', [(0, 'ul'), (1, 'li'), (2, 'a(href="")')], 1), ('x.c>{t}', [(0, 'x.c')], 0)]


def _text_node_children():
    """text-only nodes written as children (known finding F46): every element still has a line of its own that starts with its name
    (the text may follow it after a blank, or stand on a line of its own one level deeper)"""
    import emmet
    bad = []
    n = 0
    for abbr, elems, _ in TEXT_NODE_CASES:
        for syn in ('pug', 'haml', 'slim'):
            n += 1
            out = emmet.expand(abbr, {'syntax': syn})
            lines = []
            for line in out.split('\n'):
                d = len(line) - len(line.lstrip('\t'))
                lines.append((d, line.strip()))
            want = [(d, ('%' if syn == 'haml' else '') + (h.replace('(href="")', ' href=""') if syn == 'slim' else h)) for d, h in elems]
            k = 0
            ok = True
            for d, h in want:
                while k < len(lines) and not (lines[k][0] == d and (lines[k][1] == h or lines[k][1].startswith(h + ' '))):
                    # only text lines may stand between element lines
                    if lines[k][1] and not (lines[k][1].startswith('|') or lines[k][1] in ('x', 't')):
                        ok = False
                    k += 1
                if k == len(lines):
                    ok = False
                    break
                k += 1
            if not ok:
                bad.append(('indent-lines (text node child)', {'abbr': abbr, 'syntax': syn, 'expected_element_lines': want, 'actual': lines, 'output': out,
                                                               'flags': {'text_node_child': True}}))
    return n, bad


def run(out):
    quick = out.tier == 'quick'
    ntn, badtn = _text_node_children()
    out.evaluations += ntn
    out.parts.append({'instance': 'text-node-children', 'cases': ntn})
    for what, case in badtn:
        out.violation(what, case)
    out.rule = ('one case per (abbreviation generated by IndentFormat.tla, syntax in pug/haml/slim, indent string); non-trivial = at least two '
                'elements; distinct by (abbreviation, syntax)')
    out.assumptions = ['lines are compared after removing trailing blanks (an empty tabstop leaves one)', 'ids and class names without blanks']
    base = dict(Names=set(), Implicits=set(), Voids=set(), Reps={2}, MaxGroups=0, MaxReps=2)
    insts = [('forms-exhaustive', dict(constants=dict(base, MaxTok=3 if quick else 5, FormIdx=set(range(1, 30))))),
             ('forms-deep', dict(constants=dict(base, MaxTok=7 if quick else 9, FormIdx={1, 3, 8, 10, 16} if quick else {1, 3, 8, 10, 13, 16}))),
             ('forms-simulated', dict(constants=dict(base, MaxTok=20 if quick else 30, FormIdx=set(range(1, 30)), MaxReps=3),
                                      simulate=3 if quick else 60, depth=24 if quick else 36, seed=out.seed))]
    for name, kw in insts:
        r = common.run_tlc('IndentFormat', timeout=3000, heap='12g', **kw)
        if r.violated:
            out.add_tlc(name, r)
            out.violation('spec-invariant %s violated in the model' % r.violated, {'instance': name, 'tlc': r.error[:3000]})
            continue
        vecs = {}
        for v in r.vectors():
            if len(v['tree']) <= 200:
                vecs.setdefault(v['abbr'], v)
        if r.mode == 'simulate':
            vecs = dict(common.sample(vecs.items(), 2500 if quick else 40000, out.seed, key=lambda kv: repr(kv[0])))
        if r.mode == 'bfs':
            out.exhaustive = r.exhaustive if out.exhaustive is None else (out.exhaustive and r.exhaustive)
        items = []
        for a, v in vecs.items():
            h = zlib.crc32(a.encode()) + out.seed
            rows = [(h % 3, INDENTS[h % 3])] if quick else [(s, INDENTS[(h + s) % 3]) for s in range(3)]
            items.append((v, rows))
            out.evaluations += len(rows)
            if len(v['tree']) >= 2:
                for si, _ in rows:
                    out.distinct.add((a, si))
        bad = common.pool_map(_chunk, items, chunk=1000)
        out.add_tlc(name, r, vectors=len(vecs))
        out.traces += len(items)
        for what, case in bad:
            out.violation(what, case)
        ks = sorted(vecs, key=lambda a: zlib.crc32(a.encode()))
        for a in ks[:2]:
            out.sample({'abbr': a, 'syntax': vecs[a]['lines'][1]['syn'], 'expected_lines': vecs[a]['lines'][1]['ls']})
    # ---- grammar-level differential: the indent formatter of the specification (AbbrPrint.tla on AbbrConvert.tla) against expand()
    gq = dict(NameFr={"x", "", "div", "ul", "em"}, ModFr={"#i", ".c", "[class=DQd  eDQ]", "[t=v]", "[t]", "[d. !m]", "[u=DQa bDQ w='q']", "{txt}",
                                                          "{a ${1:p}}", "[DQqDQ]", "[class=k]", "[hidden]", "[!m]"},
              RepFr={"*2", "*"}, OpFr={">", "+", "^"}, MaxGroups=1, MaxMods=2)
    grammar.indent_differential(out, 'grammar-indent-lines', dict(gq, MaxFrag=4 if quick else 5), per_vector=2 if quick else 9)


def replay(case):
    if case.get('what', '').endswith('(grammar)'):
        return grammar.indent_replay(case)
    import emmet
    c = case['case']
    return 'expand(%r, %s) ->\n%s\nexpected %r' % (c['abbr'], c['syntax'], emmet.expand(c['abbr'], {'syntax': c['syntax'], 'options': {'output.indent': c['indent']}}), c.get('expected'))
