"""C09 - HTML matcher returns the innermost enclosing tag pair with exact ranges.

HtmlDoc.tla builds every document of up to N segments (HTML and XML mode) with its ground truth, TLC checks the stack
machines of match / balanced_outward / balanced_inward against the stack-free contract at every position, and prints
document, truth table, expected scan events and the expected answer at every position.  The harness calls the real
scan(), match(), balanced_outward(), balanced_inward() at every position and compares names, open/close ranges and
attribute name/value slices with the truth.
"""
import zlib

import common

NOGEN = dict(GenNames=set(), GenAttrIdx=set(), GenEnds=set(), GenBodyIdx=set(), GenOpaqueIdx=set(), GenOBodyIdx=set())

QUICK = [False]
ALLSEG = (set(range(1, 29)) - {20, 21, 22}) | {33, 34}


def SKIP(doc, pos):
    """quick tier: in documents longer than 28 characters two of three positions are skipped (chosen by a hash of the document)"""
    n = len(doc)
    return QUICK[0] and n > 28 and 2 < pos < n - 2 and (pos + zlib.crc32(doc.encode())) % 3 != 0

NONE = '<none>'


def _elem(e):
    return (e['name'], (e['os'], e['oe']), (e['cs'], e['ce']) if e['ce'] != -1 else None)


def _chunk(vecs):
    from emmet import html_matcher as hm
    from emmet.html_matcher.scan import scan
    bad = []
    npos = 0
    for v in vecs:
        doc = v['doc']
        opt = {'xml': v['xml']}
        elems = v['elems']
        case0 = {'doc': doc, 'xml': v['xml']}
        try:
            evs = []
            scan(doc, lambda n, t, s, e: evs.append([n, t, s, e]) or None, hm.ScannerOptions(opt).special)
            exp_evs = [[e['n'], e['ty'], e['s'], e['e']] for e in v['evs']]
            if evs != exp_evs:
                bad.append(('scan-events', dict(case0, expected=exp_evs, actual=evs)))
                continue
            for pos, at in enumerate(v['at']):
                if SKIP(doc, pos):
                    continue
                npos += 1
                case = dict(case0, pos=pos)
                with common.Alarm(10):
                    m = hm.match(doc, pos, opt)
                    o = hm.balanced_outward(doc, pos, opt)
                    i = hm.balanced_inward(doc, pos, opt)
                    if pos % 5 == 2:
                        # what was handed out belongs to the caller: after it has been changed in place the same questions get the same answers
                        common.scramble(m); common.scramble(o); common.scramble(i)
                        m = hm.match(doc, pos, opt)
                        o = hm.balanced_outward(doc, pos, opt)
                        i = hm.balanced_inward(doc, pos, opt)
                if at['m'] == 0:
                    if m is not None:
                        bad.append(('match', dict(case, expected=None, actual=(m.name, m.open, m.close))))
                else:
                    e = elems[at['m'] - 1]
                    exp = _elem(e)
                    got = None if m is None else (m.name, tuple(m.open), tuple(m.close) if m.close else None)
                    if got != exp:
                        bad.append(('match', dict(case, expected=exp, actual=got)))
                    else:
                        ea = [(a['n'], a['noff'], a['noff'] + len(a['n']), None if a['v'] == NONE else a['v'],
                               None if a['v'] == NONE else a['voff'], None if a['v'] == NONE else a['voff'] + len(a['v'])) for a in e['attrs']]
                        ga = [(a.name, a.name_start, a.name_end, a.value, a.value_start if a.value is not None else None,
                               a.value_end if a.value is not None else None) for a in m.attributes]
                        if ga != ea:
                            bad.append(('match-attributes', dict(case, expected=ea, actual=ga)))
                        else:
                            for a in m.attributes:
                                if doc[a.name_start:a.name_end] != a.name or (a.value is not None and doc[a.value_start:a.value_end] != a.value):
                                    bad.append(('attribute-slices', dict(case, attribute=a.name)))
                eo = [_elem(elems[k - 1]) for k in at['o']]
                go = [(t.name, tuple(t.open), tuple(t.close) if t.close else None) for t in o]
                if go != eo:
                    bad.append(('balanced_outward', dict(case, expected=eo, actual=go)))
                ei = [_elem(elems[k - 1]) for k in at['i']]
                gi = [(t.name, tuple(t.open), tuple(t.close) if t.close else None) for t in i]
                if gi != ei:
                    bad.append(('balanced_inward', dict(case, expected=ei, actual=gi)))
        except Exception as ex:
            bad.append(('matcher raised', dict(case0, exception=type(ex).__name__, site=common.innermost_emmet_frame(ex))))
    return [('COUNT', npos)] + bad


def run(out):
    quick = out.tier == 'quick'
    QUICK[0] = quick
    out.rule = ('one case per (complete document generated by HtmlDoc.tla, mode, position); non-trivial = the position lies inside at least '
                'one element; distinct by (document, mode, position); counted as positions with a non-empty expected answer')
    out.assumptions = ['documents are well nested (C16 covers the others); segment texts are fixed strings of the model']
    insts = [('documents-exhaustive', dict(constants={'MaxSeg': 3, 'MaxDepth': 3, 'SegIdx': ALLSEG, 'XmlModes': {True, False}, **NOGEN})),
             ('documents-4' if quick else 'documents-deep', dict(constants={'MaxSeg': 4 if quick else 5, 'MaxDepth': 3 if quick else 4,
                                                                             'SegIdx': {1, 2, 4, 8, 11, 13, 16, 18, 23, 25, 27} if quick else {1, 2, 8, 11, 16, 23, 25, 27},
                                                                             'XmlModes': {True, False}, **NOGEN})),
             ('documents-simulated', dict(constants={'MaxSeg': 14 if quick else 25, 'MaxDepth': 6, 'SegIdx': ALLSEG, 'XmlModes': {True, False}, **NOGEN},
                                          simulate=3 if quick else 60, depth=15 if quick else 26, seed=out.seed))]
    # deep sibling-rich trees over a small alphabet: what the stack / pool bookkeeping of the three functions depends on
    insts.append(('documents-structural', dict(constants={'MaxSeg': 18 if quick else 26, 'MaxDepth': 5, 'SegIdx': {1, 3, 18}, 'XmlModes': {False}, **NOGEN},
                                               simulate=3 if quick else 40, depth=19 if quick else 27, seed=out.seed + 1)))
    # generated segment families: tag = name x attribute part x end, script / style with bodies, opaque sections with bodies
    allgen = dict(GenNames={"a", "br", "img", "script", "style", "p", "my-el", "h1", "svg:g"}, GenAttrIdx=set(range(1, 11)), GenEnds={">", "/>", " />", " >"},
                  GenBodyIdx=set(range(1, 10)), GenOpaqueIdx={1, 2, 3, 4}, GenOBodyIdx=set(range(1, 11)))
    insts.append(('generated-families-small', dict(constants=dict(MaxSeg=3 if quick else 4, MaxDepth=2, SegIdx={18}, XmlModes={True, False},
                                                                  GenNames={"a", "script"}, GenAttrIdx={1, 4}, GenEnds={">", "/>"}, GenBodyIdx={1, 3},
                                                                  GenOpaqueIdx={1, 2}, GenOBodyIdx={3, 5}))))
    insts.append(('generated-families-simulated', dict(constants=dict(allgen, MaxSeg=10 if quick else 16, MaxDepth=4, SegIdx={18}, XmlModes={True, False}),
                                                       simulate=4 if quick else 40, depth=11 if quick else 17, seed=out.seed + 2)))
    nontrivial = 0
    for name, kw in insts:
        r = common.run_tlc('HtmlDoc', timeout=3000, heap='16g', **kw)
        if r.violated:
            out.add_tlc(name, r)
            out.violation('spec-invariant %s violated in the model (machine # contract)' % r.violated, {'instance': name, 'tlc': r.error[:3000]})
            continue
        vecs = {}
        for v in r.vectors():
            vecs.setdefault((v['doc'], v['xml']), v)
        if r.mode == 'simulate':
            vecs = dict(common.sample(vecs.items(), ({'documents-structural': 400, 'generated-families-simulated': 450}.get(name, 250)) if quick else 8000, out.seed, key=lambda kv: repr(kv[0])))
        if r.mode == 'bfs':
            out.exhaustive = r.exhaustive if out.exhaustive is None else (out.exhaustive and r.exhaustive)
        res = common.pool_map(_chunk, list(vecs.values()), chunk=300)
        npos = 0
        for what, case in res:
            if what == 'COUNT':
                npos += case
                continue
            out.violation(what, case)
        out.add_tlc(name, r, documents=len(vecs), positions=npos)
        out.traces += len(vecs)
        out.evaluations += npos
        nontrivial += sum(1 for v in vecs.values() for at in v['at'] if at['m'] or at['i'])
        ks = sorted(vecs, key=lambda a: zlib.crc32(repr(a).encode()))
        for k in ks[:1]:
            v = vecs[k]
            out.sample({'doc': v['doc'], 'xml': v['xml'], 'expected_at_pos_2': v['at'][2] if len(v['at']) > 2 else None,
                        'elements': [[e['name'], e['os'], e['oe'], e['cs'], e['ce']] for e in v['elems']]})
    out.distinct_count = nontrivial


def replay(case):
    from emmet import html_matcher as hm
    c = case['case']
    opt = {'xml': c['xml']}
    pos = c.get('pos', 0)
    m = hm.match(c['doc'], pos, opt)
    return 'match(%r, %d, %r) -> %r\noutward -> %r\ninward -> %r\nexpected %r' % (
        c['doc'], pos, opt, m and (m.name, m.open, m.close),
        [(t.name, t.open, t.close) for t in hm.balanced_outward(c['doc'], pos, opt)],
        [(t.name, t.open, t.close) for t in hm.balanced_inward(c['doc'], pos, opt)], c.get('expected'))
