"""C19 - math expressions evaluate to their arithmetic value; extract reports well-formed ranges.

spec -> code : MathExpr.tla (TLC checks machine = contract on every generated string) prints one vector
               per string; each vector is replayed into the real emmet.math_expression.evaluate.
code -> spec : every extract() call on the same strings x positions x options is recorded and validated by
               Trace_MathExtract.tla.
"""
import re

import common

TOL = 1e-9
TWO_LIT = re.compile(r'^[0-9.]+\\[0-9.]+$')          # integer division of two literals: judged exactly (see known finding F33)


def _classify(evaluate, perr, e):
    try:
        v = common.guarded(lambda: evaluate(e), 5)
    except perr:
        return 'perr', None, None
    except ZeroDivisionError:
        return 'zde', None, None
    except TimeoutError:
        return 'timeout', None, None
    except Exception as ex:  # anything else is an internal error
        return 'internal', None, (type(ex).__name__, common.innermost_emmet_frame(ex))
    if isinstance(v, bool) or not isinstance(v, (int, float)):
        return 'other', repr(v), None
    return 'val', float(v), None


def _replay_chunk(vecs):
    from emmet.math_expression import evaluate, MathExpressionException
    from emmet.math_expression.parser import parse
    bad = []
    for v in vecs:
        k, val, info = _classify(evaluate, MathExpressionException, v['e'])
        # what parse() hands out belongs to the caller: a token list that was changed in place does not touch later evaluations
        try:
            common.scramble(parse(v['e']))
        except Exception:
            pass
        # the value of an expression does not depend on earlier evaluations: the same string once more, right away
        k2, val2, info2 = _classify(evaluate, MathExpressionException, v['e'])
        if (k2, val2) != (k, val):
            bad.append(('value (second evaluation of the same string)', {'expr': v['e'], 'first': [k, val], 'second': [k2, val2], 'detail': info2}))
            continue
        if v['trailingBlank'] or not v['scope'] or not v['lscope']:
            # the statement does not say which value a chain mixing \ with * or / has - but it still says how a call may end
            if k in ('internal', 'timeout', 'other'):
                bad.append(('outcome-class: %s' % k, {'expr': v['e'], 'actual': k, 'detail': info or val}))
            continue
        if k in ('internal', 'timeout', 'other'):
            bad.append(('outcome-class: %s where the contract says %s' % (k, v['k']),
                        {'expr': v['e'], 'expected': v['k'], 'actual': k, 'detail': info or val}))
            continue
        # a literal of the form "1." is either refused (parse error) or read as 1: two admissible outcomes
        allowed = [(v['k'], v['v'], v['exact'])]
        if v['silent']:
            allowed.append((v['lk'], v['lv'], v['lexact']))
        ok = False
        two_literals = bool(TWO_LIT.match(v['e']))
        for ek, ev, eexact in allowed:
            if not eexact and not two_literals:
                # floor()/zero test on inexact floats: only the absence of internal errors is asserted
                ok = True
                break
            if k != ek:
                continue
            if k != 'val':
                ok = True
                break
            exp = ev[0] / ev[1]
            if abs(val - exp) <= TOL * max(1.0, abs(exp)):
                ok = True
                break
        if not ok:
            what = 'value' if k == 'val' and any(a[0] == 'val' for a in allowed) else 'outcome-class: %s where the contract says %s' % (k, v['k'])
            bad.append((what, {'expr': v['e'], 'expected': v['k'], 'expected_value': v['v'], 'actual': k, 'actual_value': val,
                               'also_admissible': [list(a[:2]) for a in allowed[1:]]}))
    return bad


LAWS = [4]


def _extract_chunk(texts):
    from emmet.math_expression import extract
    out = []
    for tid, text in texts:
        ev = []
        for pos in range(0, len(text) + 1):
            for la, ws in ((True, True), (False, False), (True, False), (False, True))[:LAWS[0]]:
                if True:
                    try:
                        with common.Alarm(5):
                            r = extract(text, pos, {'lookAhead': la, 'whitespace': ws})
                    except Exception as ex:
                        ev.append({'pos': pos, 'la': la, 'ws': ws, 'none': False, 's': -1, 'e': -1,
                                   'exc': type(ex).__name__})
                        continue
                    if r is None:
                        ev.append({'pos': pos, 'la': la, 'ws': ws, 'none': True, 's': 0, 'e': 0})
                    else:
                        ev.append({'pos': pos, 'la': la, 'ws': ws, 'none': False, 's': int(r[0]), 'e': int(r[1])})
        out.append({'tid': tid, 'text': text, 'events': ev})
    return out


def run(out):
    quick = out.tier == 'quick'
    out.rule = ('spec->code: every string generated by MathExpr.tla (grammatical token sequences; all strings over a '
                '12-symbol alphabet; simulated longer expressions with blanks) is one case; non-trivial = in scope, '
                'not statement-silent; distinct by string.  code->spec: every (text, pos, lookAhead, whitespace) '
                'extract call is one event, non-None results counted separately')
    out.assumptions = [
        'TLC 1.8 and the CommunityModules Json/IOUtils are trusted',
        'Python floats are compared with the exact rational of the contract within 1e-9 relative; where a floor '
        'division or a zero test would depend on float rounding (non-dyadic operands) only the outcome class '
        '"no internal error" is asserted',
        'a trailing blank is generated but not judged; a literal of the form "1." may raise the parse error or be read as 1',
    ]
    full = {'0', '2', '.', '+', '-', '*', '/', 'BS', '(', ')', ' ', 'a', '`'}      # ` stands for a digit character that is not a decimal (superscript two)
    structural = {'2', '+', '-', '(', ')'}
    base = {'Blanks': False, 'Deviations': set(), 'Alphabet': full, 'NumSet': {'0', '2', '3', '.5', '10', '1.5'}}
    insts = [
        ('tokens-exhaustive', dict(constants=dict(base, Mode='tokens', MaxLen=5 if quick else 7))),
        ('chars-exhaustive', dict(constants=dict(base, Mode='chars', MaxLen=4 if quick else 5))),
        ('chars-structural', dict(constants=dict(base, Mode='chars', MaxLen=7 if quick else 8, Alphabet=structural))),
        ('intdiv-decimal-literals', dict(constants=dict(base, Mode='tokens', MaxLen=3, NumSet={'1', '3', '4', '7', '.1', '.2', '.3', '.8', '10', '2.5', '.7'}))),
        ('tokens-simulated', dict(constants=dict(base, Mode='tokens', MaxLen=14 if quick else 22, Blanks=True),
                                  simulate=3 if quick else 60, depth=16 if quick else 24, seed=out.seed)),
    ]
    all_strings = []
    exhaustive = True
    for name, kw in insts:
        r = common.run_tlc('MathExpr', timeout=3000, heap='8g', **kw)
        if r.violated:
            out.add_tlc(name, r)
            out.violation('spec-invariant %s violated in the model (machine # contract)' % r.violated,
                          {'instance': name, 'tlc': r.error[:3000]})
            continue
        vecs = r.vectors()
        # de-duplicate (simulation revisits prefixes)
        seen = {}
        for v in vecs:
            v['e'] = v['e'].replace('`', '\u00b2')
            seen.setdefault(v['e'], v)
        vecs = list(seen.values())
        if r.mode == 'simulate':
            vecs = common.sample(vecs, 6000 if quick else 80000, out.seed, key=lambda v: v['e'])
        if r.mode == 'bfs' and not r.exhaustive:
            exhaustive = False
        bad = common.pool_map(_replay_chunk, vecs, chunk=2000)
        judged = [v for v in vecs if v['scope'] and v['lscope'] and not v['trailingBlank']]
        out.add_tlc(name, r, vectors=len(vecs), judged=len(judged),
                    by_class={k: sum(1 for v in judged if v['k'] == k) for k in ('val', 'zde', 'perr')})
        out.traces += len(vecs)
        out.evaluations += len(vecs)
        for v in judged:
            out.distinct.add(v['e'])
        for v in judged[len(judged) // 2: len(judged) // 2 + 3]:
            out.sample({'expr': v['e'], 'contract': v['k'], 'value': v['v']})
        for what, case in bad:
            out.violation(what, case)
        if name == 'chars-exhaustive':
            all_strings += [v['e'] for v in vecs]
        elif name == 'chars-structural':
            all_strings += [v['e'] for v in vecs if len(v['e']) <= 5]
        elif name == 'tokens-simulated':
            all_strings += [v['e'] for v in vecs[:2000 if quick else 20000]]
    out.exhaustive = exhaustive

    # ---- extract: code -> spec
    LAWS[0] = 4          # all four (lookAhead, whitespace) combinations in both tiers
    texts = sorted(set(all_strings))
    if quick:
        texts = [t for t in texts if len(t) <= 3] + common.sample([t for t in texts if len(t) > 3], 7000, out.seed, key=str)
    texts = list(enumerate(texts, 1))
    traces = common.pool_map(_extract_chunk, texts, chunk=1000)
    nonnone = 0
    for t in traces:
        for e in t['events']:
            if e.get('exc'):
                out.violation('extract raised', {'text': t['text'], 'pos': e['pos'], 'lookAhead': e['la'],
                                                 'whitespace': e['ws'], 'exception': e['exc']})
            if not e['none']:
                nonnone += 1
    verdicts, r = common.validate_traces('Trace_MathExtract', traces, heap='8g')
    nev = sum(len(t['events']) for t in traces)
    out.add_tlc('extract-trace-validation', r, traces=len(traces), events=nev, non_none_results=nonnone)
    out.traces += len(traces)
    out.evaluations += nev
    by_tid = {t['tid']: t for t in traces}
    for tid, v in verdicts.items():
        if v[0] == 'REJECT':
            t = by_tid[tid]
            e = t['events'][v[1] - 1]
            out.violation('extract: ' + v[2], {'text': t['text'], 'event': e})
    if traces:
        t = traces[len(traces) // 2]
        out.sample({'extract_text': t['text'], 'events': t['events'][:3]})


def replay(case):
    from emmet.math_expression import evaluate, MathExpressionException, extract
    c = case['case']
    if 'expr' in c:
        return 'evaluate(%r) -> %r   (expected %s %s)' % (
            c['expr'], _classify(evaluate, MathExpressionException, c['expr']), c.get('expected'), c.get('expected_value'))
    e = c.get('event', c)
    try:
        r = extract(c['text'], e['pos'], {'lookAhead': e.get('la', e.get('lookAhead')), 'whitespace': e.get('ws', e.get('whitespace'))})
    except Exception as ex:
        r = repr(ex)
    return 'extract(%r, %r) -> %r' % (c['text'], e, r)
