"""C17 - editor action helpers select exactly the tag, attribute and property parts.

The document generators of C09 / C10 (HtmlDoc.tla, CssDoc.tla) also carry the contract of the action helpers: per tag the
selection ranges (name, each attribute, unquoted value, each class token), per position the open tag / next / previous tag;
per rule body range and direct declarations with name, value, value tokens, before / after; per position the innermost
section and the next / previous item.  TLC checks the internal consistency of these contracts (ranges inside their tag or
item, ordered, non-empty, de-duplicated; next and previous walk the same sequence) and prints them; the harness calls
get_open_tag, select_item_html, get_css_section and select_item_css at every position.
"""
import zlib

import common

NOGEN = dict(GenNames=set(), GenAttrIdx=set(), GenEnds=set(), GenBodyIdx=set(), GenOpaqueIdx=set(), GenOBodyIdx=set())

QUICK = [False]


def SKIP(doc, pos):
    """quick tier: in documents longer than 28 characters two of three positions are skipped (chosen by a hash of the document)"""
    n = len(doc)
    return QUICK[0] and n > 28 and 2 < pos < n - 2 and (pos + zlib.crc32(doc.encode())) % 3 != 0

NONE = '<none>'


def _html_chunk(vecs):
    from emmet.action_utils import get_open_tag, select_item_html
    bad = []
    npos = 0
    for v in vecs:
        doc = v['doc']
        elems = v['elems']
        sel = v['sel']
        case0 = {'doc': doc}
        try:
            for pos, at in enumerate(v['at']):
                if SKIP(doc, pos):
                    continue
                npos += 1
                case = dict(case0, pos=pos)
                with common.Alarm(10):
                    t = get_open_tag(doc, pos)
                    n = select_item_html(doc, pos)
                    p = select_item_html(doc, pos, True)
                    if pos % 5 == 2:
                        # what was handed out belongs to the caller: changed in place, the same questions still get the same answers
                        common.scramble(t); common.scramble(n); common.scramble(p)
                        t = get_open_tag(doc, pos)
                        n = select_item_html(doc, pos)
                        p = select_item_html(doc, pos, True)
                if at['t'] == 0:
                    if t is not None and not at['c']:
                        bad.append(('get_open_tag', dict(case, expected=None, actual=t.to_json())))
                else:
                    e = elems[at['t'] - 1]
                    ea = [(a['n'], a['noff'], a['noff'] + len(a['n']), None if a['v'] == NONE else a['v'],
                           None if a['v'] == NONE else a['voff'], None if a['v'] == NONE else a['voff'] + len(a['v'])) for a in e['attrs']]
                    if t is None or (t.name, t.start, t.end) != (e['name'], e['os'], e['oe']):
                        bad.append(('get_open_tag', dict(case, expected=[e['name'], e['os'], e['oe']], actual=t and t.to_json())))
                    else:
                        ga = [(a.name, a.name_start, a.name_end, a.value, a.value_start if a.value is not None else None,
                               a.value_end if a.value is not None else None) for a in (t.attributes or [])]
                        if ga != ea:
                            bad.append(('get_open_tag attributes', dict(case, expected=ea, actual=ga)))
                        elif any(doc[a.name_start:a.name_end] != a.name or (a.value is not None and doc[a.value_start:a.value_end] != a.value)
                                 for a in (t.attributes or [])):
                            bad.append(('get_open_tag attribute slices', case))
                for what, got, idx in (('select_item_html next', n, at['n']), ('select_item_html previous', p, at['p'])):
                    if idx == 0:
                        if got is not None:
                            bad.append((what, dict(case, expected=None, actual=got.to_json())))
                    else:
                        e = elems[idx - 1]
                        exp = {'start': e['os'], 'end': e['oe'], 'ranges': [tuple(r) for r in sel[idx - 1]]}
                        g = None if got is None else {'start': got.start, 'end': got.end, 'ranges': [tuple(r) for r in got.ranges]}
                        if g != exp:
                            bad.append((what, dict(case, expected=exp, actual=g)))
        except Exception as ex:
            bad.append(('action helper raised', dict(case0, exception=type(ex).__name__, site=common.innermost_emmet_frame(ex))))
    return [('COUNT', npos)] + bad


INCLUDE = '@include x;'


def _with_name_only_item(v):
    """the stylesheet with a statement that has a name only (@include x;) written at the start of the first rule that has a direct
    declaration: it is listed as a property with an empty value and the declaration after it starts where it ends"""
    for r in v['rules']:
        if r['s'] >= 0 and r['props']:
            bs, n = r['bs'], len(INCLUDE)
            sh = lambda x: x + n if x >= bs else x
            props = [{'name': (bs, bs + n - 1), 'value': (bs + n - 1, bs + n - 1), 'value_tokens': [], 'before': bs, 'after': bs + n}]
            for q in r['props']:
                props.append({'name': tuple(sh(x) for x in q['name']), 'value': tuple(sh(x) for x in q['value']),
                              'value_tokens': [tuple(sh(y) for y in x) for x in q['tokens']], 'before': sh(q['before']), 'after': sh(q['after'])})
            return v['doc'][:bs] + INCLUDE + v['doc'][bs:], bs + 3, {'start': r['s'], 'end': r['e'] + n, 'body_start': bs, 'body_end': r['be'] + n, 'properties': props}
    return None


def _css_chunk(vecs):
    from emmet.action_utils import get_css_section, select_item_css
    bad = []
    npos = 0
    for v in vecs:
        doc = v['doc']
        flags = {'semicolon_in_parentheses': bool(v['f16']) and 'f(c;d)' in v['doc'], 'brace_in_parentheses': bool(v['f16']) and '- #{$x})' in v['doc']}
        case0 = {'doc': doc, 'flags': flags}
        if not v['f16']:
            alt = _with_name_only_item(v)
            if alt:
                doc2, pos2, exp2 = alt
                try:
                    s2 = get_css_section(doc2, pos2, True)
                    g2 = None if s2 is None else {'start': s2.start, 'end': s2.end, 'body_start': s2.body_start, 'body_end': s2.body_end,
                                                   'properties': [{'name': tuple(q.name), 'value': tuple(q.value), 'value_tokens': [tuple(x) for x in q.value_tokens],
                                                                   'before': q.before, 'after': q.after} for q in (s2.properties or [])]}
                    npos += 1
                    if g2 != exp2:
                        bad.append(('css-section properties', {'doc': doc2, 'flags': flags, 'pos': pos2, 'expected': exp2, 'actual': g2, 'variant': 'name-only item'}))
                except Exception as ex:
                    bad.append(('action helper raised', {'doc': doc2, 'flags': flags, 'exception': type(ex).__name__, 'site': common.innermost_emmet_frame(ex)}))
        try:
            for pos, at in enumerate(v['at']):
                if SKIP(doc, pos):
                    continue
                npos += 1
                case = dict(case0, pos=pos)
                with common.Alarm(10):
                    s = get_css_section(doc, pos, True)
                    n = select_item_css(doc, pos)
                    p = select_item_css(doc, pos, True)
                    if pos % 5 == 2:
                        common.scramble(s); common.scramble(n); common.scramble(p)
                        s = get_css_section(doc, pos, True)
                        n = select_item_css(doc, pos)
                        p = select_item_css(doc, pos, True)
                if at['sec'] == 0:
                    if s is not None:
                        bad.append(('css-section', dict(case, expected=None, actual=s.to_json())))
                else:
                    r = v['rules'][at['sec'] - 1]
                    exp = {'start': r['s'], 'end': r['e'], 'body_start': r['bs'], 'body_end': r['be'],
                           'properties': [{'name': tuple(q['name']), 'value': tuple(q['value']), 'value_tokens': [tuple(x) for x in q['tokens']],
                                           'before': q['before'], 'after': q['after']} for q in r['props']]}
                    g = None
                    if s is not None:
                        g = {'start': s.start, 'end': s.end, 'body_start': s.body_start, 'body_end': s.body_end,
                             'properties': [{'name': tuple(q.name), 'value': tuple(q.value), 'value_tokens': [tuple(x) for x in q.value_tokens],
                                             'before': q.before, 'after': q.after} for q in (s.properties or [])]}
                    if g != exp:
                        what = 'css-section' if g is None or any(g[k] != exp[k] for k in ('start', 'end', 'body_start', 'body_end')) else 'css-section properties'
                        bad.append((what, dict(case, expected=exp, actual=g)))
                for what, got, idx, silent in (('select-item-css next', n, at['n'], at['ns']), ('select-item-css previous', p, at['p'], False)):
                    if silent:
                        continue
                    if idx == 0:
                        if got is not None:
                            bad.append((what, dict(case, expected=None, actual=got.to_json())))
                    else:
                        it = v['items'][idx - 1]
                        if it['nosemi']:
                            continue          # declaration ended by "}": not covered by the select_item_css clause
                        exp = {'start': it['span'][0], 'end': it['span'][1], 'ranges': [tuple(r) for r in it['ranges']]}
                        g = None if got is None else {'start': got.start, 'end': got.end, 'ranges': [tuple(r) for r in got.ranges]}
                        if g != exp:
                            bad.append((what, dict(case, expected=exp, actual=g)))
        except Exception as ex:
            bad.append(('action helper raised', dict(case0, exception=type(ex).__name__, site=common.innermost_emmet_frame(ex))))
    return [('COUNT', npos)] + bad


def run(out):
    quick = out.tier == 'quick'
    QUICK[0] = quick
    out.rule = ('one case per (document or stylesheet generated by HtmlDoc.tla / CssDoc.tla, position); every helper is called at every '
                'position; non-trivial = positions with a non-empty expected answer; distinct by (document, position)')
    out.assumptions = ['not judged (statement silent): get_open_tag inside a closing tag; select_item_css next strictly inside a declaration '
                       'head; declarations not terminated by a semicolon for select_item_css',
                       'a value with a semicolon inside parentheses is known finding F16 (one small instance)']
    hin = [('html-exhaustive', dict(constants={'MaxSeg': 3, 'MaxDepth': 3, 'SegIdx': set(range(1, 35)), 'XmlModes': {False}, **NOGEN})),
           ('html-class-and-attributes', dict(constants={'MaxSeg': 4 if quick else 5, 'MaxDepth': 2, 'SegIdx': {2, 3, 5, 20, 21, 22, 29, 30, 31, 32} if quick else {3, 5, 20, 21, 22, 29, 30, 31, 32},
                                                         'XmlModes': {False}, **NOGEN})),
           ('html-simulated', dict(constants={'MaxSeg': 14 if quick else 25, 'MaxDepth': 6, 'SegIdx': set(range(1, 35)), 'XmlModes': {False}, **NOGEN},
                                   simulate=3 if quick else 60, depth=15 if quick else 26, seed=out.seed))]
    base = dict(MaxDepth=3, Fillers={" ", "/* {;:} */", "NL", "C2", "C4", "CRLF"}, Loose=True, SemiInParens=False, NoSemi=False)
    cin4 = ('css-4', dict(constants=dict(base, MaxSeg=4, SelIdx={1, 2}, ValIdx={1, 2, 4}, NameIdx={1}, Fillers={" ", "C2", "CRLF"})))
    cin = [('css-exhaustive', dict(constants=dict(base, MaxSeg=3, SelIdx={1, 2, 3, 5}, ValIdx={1, 2, 3, 4}, NameIdx={1, 2}))),
           ('css-all-shapes', dict(constants=dict(base, MaxSeg=2, SelIdx=set(range(1, 12)), ValIdx=set(range(1, 15)), NameIdx={1, 2, 3, 4, 5}))),
           ('css-nesting', dict(constants=dict(base, MaxSeg=5 if quick else 6, SelIdx={1, 2}, ValIdx={4}, NameIdx={1}, Fillers={" "}, Loose=False))),
           ('css-deep-nesting', dict(constants=dict(base, MaxSeg=8 if quick else 9, SelIdx={1}, ValIdx={1}, NameIdx={1}, Fillers=set(), Loose=False, NoSemi=True))),
           ('css-no-semicolon', dict(constants=dict(base, MaxSeg=4 if quick else 5, SelIdx={1, 2}, ValIdx={1, 4}, NameIdx={1}, Fillers={" "}, Loose=False, NoSemi=True))),
           ('css-semicolon-in-parentheses', dict(constants=dict(base, MaxSeg=3, SelIdx={1}, ValIdx={1}, NameIdx={1}, Fillers={" "}, Loose=False, SemiInParens=True))),
           ('css-simulated', dict(constants=dict(base, MaxSeg=12 if quick else 20, MaxDepth=4, SelIdx=set(range(1, 12)), ValIdx=set(range(1, 15)), NameIdx={1, 2, 3, 4, 5}),
                                  simulate=3 if quick else 60, depth=13 if quick else 21, seed=out.seed))]
    nontrivial = 0
    if not quick:
        cin.insert(1, cin4)
        # three segments of every selector and value shape: with all five names this is 3.1 million stylesheets (40 GB of vectors), two names give 200 000
        cin.insert(3, ('css-all-shapes-3', dict(constants=dict(base, MaxSeg=3, SelIdx=set(range(1, 12)), ValIdx=set(range(1, 15)), NameIdx={1, 3}, Fillers={" ", "/* {;:} */"}))))
    for module, cfg, insts, fn in (('HtmlDoc', 'HtmlActions', hin, _html_chunk), ('CssDoc', 'CssActions', cin, _css_chunk)):
        for name, kw in insts:
            r = common.run_tlc(module, cfg=cfg, timeout=3000, heap='16g', **kw)
            if r.violated:
                out.add_tlc(name, r)
                out.violation('spec-invariant %s violated in the model' % r.violated, {'instance': name, 'tlc': r.error[:3000]})
                continue
            vecs = {}
            for v in r.vectors():
                vecs.setdefault(v['doc'], v)
            if r.mode == 'simulate':
                vecs = dict(common.sample(vecs.items(), 250 if quick else 8000, out.seed, key=lambda kv: repr(kv[0])))
            if r.mode == 'bfs':
                out.exhaustive = r.exhaustive if out.exhaustive is None else (out.exhaustive and r.exhaustive)
            res = common.pool_map(fn, list(vecs.values()), chunk=300)
            npos = 0
            for what, case in res:
                if what == 'COUNT':
                    npos += case
                    continue
                out.violation(what, case)
            out.add_tlc(name, r, documents=len(vecs), positions=npos)
            out.traces += len(vecs)
            out.evaluations += npos
            nontrivial += sum(1 for v in vecs.values() for at in v['at'] if at.get('t') or at.get('sec') or at.get('n'))
            ks = sorted(vecs, key=lambda a: zlib.crc32(a.encode()))
            for k in ks[:1]:
                v = vecs[k]
                out.sample({'doc': v['doc'], 'selection_ranges': v.get('sel') or [i['ranges'] for i in v['items']]})
    out.distinct_count = nontrivial


def replay(case):
    from emmet.action_utils import get_open_tag, select_item_html, get_css_section, select_item_css
    c = case['case']
    doc, pos = c['doc'], c.get('pos', 0)
    if 'flags' in c:
        s = get_css_section(doc, pos, True)
        n = select_item_css(doc, pos)
        p = select_item_css(doc, pos, True)
        return 'section %r\nnext %r\nprev %r\nexpected %r' % (s and s.to_json(), n and n.to_json(), p and p.to_json(), c.get('expected'))
    t = get_open_tag(doc, pos)
    n = select_item_html(doc, pos)
    p = select_item_html(doc, pos, True)
    return 'open tag %r\nnext %r\nprev %r\nexpected %r' % (t and t.to_json(), n and n.to_json(), p and p.to_json(), c.get('expected'))
