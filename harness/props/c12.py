"""C12 - formatting options are cosmetic and indentation equals nesting depth.

FormatGen.tla (on AbbrTree.tla) generates abbreviations over block / inline / implicit / self-closed elements with ids,
classes and single / multi-line text and the content listing every option row must print.  Each abbreviation is expanded by the
real code under eight option rows (html, xml, jsx, vue, xsl, svelte x format, indent, newline, baseIndent, inlineBreak,
formatLeafNode, formatSkip, formatForce, comments, self-closing style).  (a) the content read by the independent lexer must
equal the contract under every row; (b) every output is turned into a trace of line / open / close / text / comment events and
validated by Trace_Format.tla (indentation = depth, close tag aligned with its open tag, comments adjacent to a trigger).
"""
import zlib

import common
import project_html as ph

VOIDS = ('br', 'input')      # printed without a slash under the html self-closing style

ROWS = [
    dict(name='html-2sp', syntax='html', nl='\n', base='', indent='  ', clause=True,
         opts={'output.formatSkip': [], 'output.inlineBreak': 3}),
    dict(name='html-noformat', syntax='html', nl='\n', base='', indent='\t', clause=False, opts={'output.format': False}),
    dict(name='xml-tab-crlf-leaf', syntax='xml', nl='\r\n', base='>>', indent='\t', clause=True, leaf=True,
         opts={'output.formatSkip': [], 'output.inlineBreak': 0, 'output.formatLeafNode': True}),
    dict(name='jsx-comments', syntax='jsx', nl='\n', base='', indent='    ', clause=True, comments=True,
         opts={'output.formatSkip': [], 'output.inlineBreak': 2, 'comment.enabled': True, 'output.selfClosingStyle': 'xhtml'}),
    dict(name='vue-skip-force', syntax='vue', nl='\n', base='', indent='  ', clause=False, leaf=True,
         opts={'output.formatSkip': ['ul', 'div'], 'output.formatForce': ['em']}),
    dict(name='xsl-comments-before', syntax='xsl', nl='\n', base='', indent='  ', clause=True, comments=True,
         opts={'output.formatSkip': [], 'comment.enabled': True, 'comment.before': '<!-- [#ID][.CLASS] -->\n', 'comment.after': ''}),
    dict(name='svelte-force', syntax='svelte', nl='\n', base='  ', indent='   ', clause=True, leaf=True,
         opts={'output.formatSkip': [], 'output.formatForce': ['p', 'body'], 'output.inlineBreak': 3}),
    dict(name='html-defaults', syntax='html', nl='\n', base='', indent='\t', clause=True, leaf=True, opts={}),
]


def _cfg(row):
    o = {'output.indent': row['indent'], 'output.newline': row['nl'], 'output.baseIndent': row['base']}
    o.update(row['opts'])
    return {'syntax': row['syntax'], 'options': o}


def _events(out, row):
    """line / open / close / selfclose / text / comment events of one output"""
    ev = []
    stack = []
    lines = out.split(row['nl'])
    for li, line in enumerate(lines):
        rest = line
        if li > 0:
            ok = line.startswith(row['base'])
            rest = line[len(row['base']):] if ok else line
            units = 0
            while row['indent'] and rest.startswith(row['indent']):
                rest = rest[len(row['indent']):]
                units += 1
            ev.append({'ev': 'line', 'baseok': ok, 'units': units, 'blank': rest.strip() == '', 'name': '', 'trig': False})
        for e in ph.lex(rest):
            if e[0] == 'open':
                trig = any(a[0] in ('id', 'class', 'className') and a[2] for a in e[2])
                if e[3] or e[1] in VOIDS:
                    ev.append({'ev': 'selfclose', 'name': e[1], 'trig': trig, 'baseok': True, 'units': 0, 'blank': False})
                else:
                    stack.append(trig)
                    ev.append({'ev': 'open', 'name': e[1], 'trig': trig, 'baseok': True, 'units': 0, 'blank': False})
            elif e[0] == 'close':
                trig = stack.pop() if stack else False
                ev.append({'ev': 'close', 'name': e[1], 'trig': trig, 'baseok': True, 'units': 0, 'blank': False})
            elif e[0] == 'comment':
                ev.append({'ev': 'comment', 'name': '', 'trig': False, 'baseok': True, 'units': 0, 'blank': False})
            elif e[0] == 'text' and e[1].strip():
                ev.append({'ev': 'text', 'name': '', 'trig': False, 'baseok': True, 'units': 0, 'blank': False})
    return ev


def _content(out, row):
    lines = out.split(row['nl'])
    lines = lines[:1] + [l[len(row['base']):] if l.startswith(row['base']) else l for l in lines[1:]]    # baseIndent is white space of the host document
    full = ph.tree(ph.lex('\n'.join(lines)), VOIDS)
    # text printed between / after the children of an element belongs to that element's text
    for i, n in enumerate(full):
        if n['n'] == '#text' and n['d'] > 0:
            par = next(m for m in reversed(full[:i]) if m['n'] != '#text' and m['d'] == n['d'] - 1)
            par['t'] += '\n' + n['t']
    lst = [n for n in full if n['n'] != '#text']
    res = []
    for i, n in enumerate(lst):
        attrs = {a[0]: a[2] for a in n['a']}
        cls = attrs.get('className' if row['syntax'] == 'jsx' else 'class', '')
        has_kids = i + 1 < len(lst) and lst[i + 1]['d'] > n['d']
        res.append({'d': n['d'], 'n': n['n'], 'id': attrs.get('id', ''), 'cls': cls.split(),
                    'attrs': [[a[0], a[2]] for a in n['a'] if a[0] not in ('id', 'class', 'className')], 'text': n['t'].split(),          # the words of the text: formatting may only change the white space between them
                    'tlines': [l.strip(' \t\r') for l in n['t'].split('\n') if l.strip(' \t\r')],      # ... and its lines as they are, without the indentation

                    'sc': bool(n['sc'] or (n['n'] in VOIDS and not has_kids))})
    return res


def _chunk(items):
    import emmet
    bad = []
    traces = []
    for tid0, v, ridx in items:
        for ri in ridx:
            row = ROWS[ri]
            cont = v['content']
            exp = []
            for i, e in enumerate(cont):
                attrs = [list(a) for a in e['attrs']]
                if row['syntax'] == 'xsl' and e['n'] in ('xsl:variable', 'xsl:with-param') and \
                        ((i + 1 < len(cont) and cont[i + 1]['d'] > e['d']) or e['text']):
                    attrs = [a for a in attrs if a[0] != 'select']       # documented xsl addon: select is dropped when there is content
                if row['syntax'] == 'jsx':
                    attrs = [['htmlFor' if a[0] == 'for' else a[0], a[1]] for a in attrs]       # markup.attributes mapping of the jsx syntax
                exp.append({'d': e['d'], 'n': e['n'], 'id': e['id'], 'cls': list(e['cls']), 'attrs': attrs, 'text': ' '.join(e['text']).split(), 'sc': bool(e['sc']),
                            'tlines': [l.strip() for l in e['text'] if l.strip()]})
            flags = {'multiline_text_with_children': bool(v['mlkids']), 'leaf_inner_break': bool(row.get('leaf') or v['mltext']),
                     'field_text_with_children': bool(v['fieldkids']),
                     'comment_before_ends_in_line_break': bool(row['opts'].get('comment.before', '').endswith('\n'))}
            variants = [(v['abbr'], tid0 * 16 + ri)]
            if '>' in v['abbr'] and '^' not in v['abbr'] and '(' not in v['abbr'] and '{' not in v['abbr'].rsplit('>', 1)[0] and ri < 8 \
                    and not any(it[:1] in '.#[' for it in v['abbr'].rsplit('>', 1)[1].split('+')):      # an implicit name would be taken from the text node
                # the last run of siblings written below an empty text node: no element is opened, the same tags at the same depths
                head, tail = v['abbr'].rsplit('>', 1)
                variants.append((head + '>{}>' + tail, tid0 * 16 + 8 + ri))
            # the lines of a text are compared as they are unless children can be spliced into it (a text with a field: "a  b")
            for x in exp:
                if any('  ' in l for l in x['tlines']):
                    x['tlines'] = None
            for abbr, tid in variants:
                case = {'abbr': abbr, 'row': row['name'], 'flags': flags}
                try:
                    with common.Alarm(10):
                        out = emmet.expand(abbr, _cfg(row))
                except Exception as ex:
                    bad.append(('expand raised', dict(case, exception=type(ex).__name__, site=common.innermost_emmet_frame(ex))))
                    continue
                try:
                    got = _content(out, row)
                    ev = _events(out, row)
                except ph.LexError as ex:
                    bad.append(('output is not well-formed markup', dict(case, output=out, lexer=str(ex))))
                    continue
                for g, x in zip(got, exp):
                    if x['tlines'] is None:
                        g['tlines'] = None
                if got != exp:
                    bad.append(('content differs', dict(case, expected=exp, actual=got, output=out)))
                    continue
                traces.append({'tid': tid, 'abbr': abbr, 'row': row['name'], 'flags': flags, 'indent_clause': bool(row['clause']),
                               'events': ev, 'output': out})
                if tid % 7 == 0:
                    # rendering does not change the tree: the same parsed tree printed under this row and then without formatting gives
                    # exactly what two separate expansions give
                    try:
                        c1 = emmet.Config(_cfg(row))
                        c2 = emmet.Config(_cfg(ROWS[1]))
                        tree = emmet.markup_abbreviation(abbr, c1)
                        r1 = emmet.stringify_markup(tree, c1)
                        r2 = emmet.stringify_markup(tree, c2)
                        if c1.syntax == c2.syntax and (r1 != out or r2 != emmet.expand(abbr, _cfg(ROWS[1]))):
                            bad.append(('content differs', dict(case, detail='the same parsed tree printed twice', first=r1, second=r2, output=out)))
                    except Exception as ex:
                        bad.append(('expand raised', dict(case, exception=type(ex).__name__, form='tree printed twice')))
    return [('BAD', bad), ('TRACES', traces)]


def run(out):
    quick = out.tier == 'quick'
    out.rule = ('one case per (abbreviation generated by FormatGen.tla, option row); content is compared for every case, and every output is '
                'one trace for the indentation monitor; non-trivial = at least two elements; distinct by (abbreviation, row)')
    out.assumptions = ['indentation clause judged only for rows with format on and formatSkip empty (or not naming a generated element)',
                       'known findings: F19 (multi-line text + children), F27 (leaf with forced inner break whose open tag is inside a line)',
                       'tag lexer trusted']
    base = dict(Names=set(), Implicits=set(), Voids=set(), Reps={2}, MaxGroups=1, MaxReps=1)
    insts = [('forms-exhaustive', dict(constants=dict(base, MaxTok=3 if quick else 4, FormIdx=set(range(1, 23))))),
             ('forms-deep', dict(constants=dict(base, MaxTok=6 if quick else 8, MaxGroups=0, FormIdx={1, 5, 9, 12, 16} if quick else {1, 5, 9, 10, 12, 16}))),
             ('forms-simulated', dict(constants=dict(base, MaxTok=18 if quick else 30, MaxGroups=2, MaxReps=2, FormIdx=set(range(1, 23))),
                                      simulate=3 if quick else 60, depth=22 if quick else 36, seed=out.seed))]
    _grammar_layout(out, quick)
    tid0 = 0
    for name, kw in insts:
        r = common.run_tlc('FormatGen', timeout=3000, heap='12g', **kw)
        if r.violated:
            out.add_tlc(name, r)
            out.violation('spec-invariant %s violated in the model' % r.violated, {'instance': name, 'tlc': r.error[:3000]})
            continue
        vecs = {}
        for v in r.vectors():
            if len(v['content']) <= 120:
                vecs.setdefault(v['abbr'], v)
        if r.mode == 'simulate':
            vecs = dict(common.sample(vecs.items(), 600 if quick else 15000, out.seed, key=lambda kv: repr(kv[0])))
        if r.mode == 'bfs':
            out.exhaustive = r.exhaustive if out.exhaustive is None else (out.exhaustive and r.exhaustive)
        items = []
        for a, v in vecs.items():
            h = zlib.crc32(a.encode()) + out.seed
            ridx = sorted({h % 8, (h // 8) % 8, (h // 64) % 8}) if quick else list(range(8))
            tid0 += 1
            items.append((tid0, v, ridx))
            out.evaluations += len(ridx)
            if len(v['content']) >= 2:
                for ri in ridx:
                    out.distinct.add((a, ri))
        res = common.pool_map(_chunk, items, chunk=300)
        traces = []
        for what, payload in res:
            if what == 'BAD':
                for w, case in payload:
                    out.violation(w, case)
            else:
                traces += payload
        slim = [{'tid': t['tid'], 'indent_clause': t['indent_clause'], 'events': t['events']} for t in traces]
        verdicts, r2 = common.validate_traces('Trace_Format', slim, heap='5g', batch_events=40000, parallel=4)
        out.add_tlc(name, r, vectors=len(vecs))
        out.add_tlc(name + '-trace-validation', r2, traces=len(traces), events=sum(len(t['events']) for t in traces))
        out.traces += len(traces)
        by = {t['tid']: t for t in traces}
        for k, vd in verdicts.items():
            if vd[0] == 'REJECT':
                t = by[k]
                out.violation('format: ' + vd[2], {'abbr': t['abbr'], 'row': t['row'], 'flags': t['flags'], 'event_index': vd[1], 'output': t['output']})
        ks = sorted(vecs, key=lambda a: zlib.crc32(a.encode()))
        for a in ks[:1]:
            out.sample({'abbr': a, 'content': vecs[a]['content'][:4]})
        if traces:
            t = traces[len(traces) // 2]
            out.sample({'abbr': t['abbr'], 'row': t['row'], 'events': t['events'][:5]})


def _grammar_chunk(vecs):
    import emmet
    row = ROWS[7]
    bad, traces, ndiff, examples = [], [], 0, []
    for tid, v in vecs:
        case = {'abbr': v['s'], 'row': 'html-defaults (grammar)', 'flags': {}}
        try:
            with common.Alarm(10):
                out = emmet.expand(v['s'], {'options': {'output.selfClosingStyle': 'xhtml'}})      # <x /> - in html style a self-closed element looks like an open tag
        except Exception as ex:
            bad.append(('expand raised', dict(case, exception=type(ex).__name__, site=common.innermost_emmet_frame(ex))))
            continue
        if out != v['fmt']:
            ndiff += 1
            if len(examples) < 3:
                examples.append(v['s'])
        try:
            got = _content(out, row)
            want = _content(v['fmt'], row)
            ev = _events(out, row)
        except ph.LexError as ex:
            bad.append(('output is not well-formed markup', dict(case, output=out, lexer=str(ex))))
            continue
        if got != want:
            bad.append(('content differs', dict(case, expected=want, actual=got, output=out, model_output=v['fmt'])))
            continue
        flags = {'multiline_text_with_children': False, 'leaf_inner_break': False, 'field_text_with_children': False}
        traces.append({'tid': tid, 'abbr': v['s'], 'row': 'html-defaults', 'flags': flags, 'indent_clause': True, 'events': ev, 'output': out})
    return [('BAD', bad), ('TRACES', traces), ('DIFF', (ndiff, examples))]


def _grammar_layout(out, quick):
    """the transcribed pipeline up to the HTML formatter with formatting on (AbbrPrint.tla: PrintedFmt): TLC checks the layout clause
    on the model's own output for every abbreviation of the instance (LayoutInv); the real output must carry the same content, goes
    through the layout monitor like every other output, and is compared byte for byte with the model's (a difference in white space
    alone is a diagnostic: the statement fixes the indentation, not where lines are broken)"""
    consts = dict(NameFr={"x", "em", "", "p", "span", "div"}, ModFr={".c", "{t}"}, RepFr={"*2", "*3"}, OpFr={">", "+", "^"}, MaxGroups=1, MaxMods=1,
                  MaxFrag=5 if quick else 6, ScChild=False, SelfClosingStyle='xhtml', TreeOnly=False, RepeatLimit=1000000)
    r = common.run_tlc('AbbrGrammar', cfg='AbbrGrammarLayout', constants=consts, timeout=3000, heap='12g')
    name = 'grammar-layout'
    if r.violated:
        out.add_tlc(name, r)
        out.violation('spec-invariant %s violated in the model of the formatter' % r.violated, {'instance': name, 'tlc': r.error[:3000]})
        return
    vecs = {}
    for v in r.vectors():
        vecs.setdefault(v['s'], v)
    r.tagged = {}
    items = [(10 ** 7 + i, v) for i, v in enumerate(vecs.values())]
    if quick:
        items = common.sample(items, 6000, out.seed, key=lambda kv: kv[1]['s'])
    res = common.pool_map(_grammar_chunk, items, chunk=500)
    traces, ndiff, examples = [], 0, []
    for what, payload in res:
        if what == 'BAD':
            for w, case in payload:
                out.violation(w, case)
        elif what == 'TRACES':
            traces += payload
        else:
            ndiff += payload[0]
            examples += payload[1]
    slim = [{'tid': t['tid'], 'indent_clause': True, 'events': t['events']} for t in traces]
    verdicts, r2 = common.validate_traces('Trace_Format', slim, heap='5g', batch_events=40000, parallel=4)
    out.add_tlc(name, r, abbreviations=len(items), model_output_differs_from_code={'count': ndiff, 'examples': examples[:5]})
    out.add_tlc(name + '-trace-validation', r2, traces=len(traces))
    out.traces += len(traces)
    out.evaluations += len(items)
    if ndiff:
        out.diag('model-vs-code: formatted output', ndiff)
    by = {t['tid']: t for t in traces}
    for k, vd in verdicts.items():
        if vd[0] == 'REJECT':
            t = by[k]
            out.violation('format: ' + vd[2], {'abbr': t['abbr'], 'row': t['row'], 'flags': t['flags'], 'event_index': vd[1], 'output': t['output']})


def replay(case):
    import emmet
    c = case['case']
    if c['row'].endswith('(grammar)'):
        return 'expand(%r) ->\n%s' % (c['abbr'], emmet.expand(c['abbr'], {'options': {'output.selfClosingStyle': 'xhtml'}}))
    row = [r for r in ROWS if r['name'] == c['row']][0]
    return 'expand(%r, row %s) ->\n%s' % (c['abbr'], row['name'], emmet.expand(c['abbr'], _cfg(row)))
