"""C08 - expansion is a pure function of its arguments.

Session.tla: TLC checks CallerConfigStable / ResultPure / NoRetention on the step-level model of markup.parse() and
stylesheet.parse() for every history of calls up to the bound and prints every history.
spec -> code : every history is executed against the real expand() in one interpreter (fresh caller objects per
               history, shared Config objects and cache dicts exactly as the model's objects share them).
code -> spec : what can be observed after each call (state of every caller object, equality with the result of the
               same call in a *fresh interpreter*, census of live library objects) is logged and validated by
               Trace_Session.tla, which performs the call with Session's own actions and compares the states.
"""
import copy
import gc
import json
import os
import subprocess
import sys

sys.path.insert(0, os.path.dirname(os.path.dirname(os.path.abspath(__file__))))
import common  # noqa: E402

S0 = {'foo': 'padding:10', 'tab': 'margin:1', 'Tab': 'margin-top:2'}       # two keys that differ in case only: their order in the converted list must not depend on how the table was written down
S0R = dict(reversed(list(S0.items())))                                   # the same table (equal as a dict) written in the other order
S1 = {'foo': 'padding:10', 'tab': 'border:1'}
MS1 = {'bad': 'x)', 'good': 'section.sn', 'sig': 'p.sig{-- ${who}}'}
OBJS = ['m1', 'm2', 'm3', 'm4', 'm5', 'm6', 'm7', 'm8', 'm9', 'm10', 'm11', 's1', 's2', 's3', 's4', 's5', 's6', 's7', 's8', 's9', 's10']

ABBR = {
    'markup': {'ok': 'ul>li.item$*2>a', 'wrap': 'ul>li*', 'badparse': 'ul>li)', 'badsnippet': 'ul>bad*', 'bem': 'div.b>.-e_m+p.b__x', 'var': '!>sig', 'empty': ''},
    'css': {'num': 'foo', 'tab': 'tab', 'plain': 'p10+m0-a', 'raw': '@k', 'fnarg': 'trf:sc(2)', 'fnbare': 'trf:sc', 'alias': 'p10r+m5v', 'badparse': 'p{'},
}


def make_objects(emmet):
    k1, k2, k3 = {}, {}, {}
    o = {
        'm1': {'text': ['a', 'b'], 'snippets': dict(MS1)},
        'm2': {'options': {'bem.enabled': True}},
        'm3': emmet.Config({'text': 'T', 'snippets': dict(MS1)}),
        'm4': {},
        'm6': {'variables': {'lang': 'fr', 'who': 'me'}, 'snippets': {'sig': 'p.sig{-- ${who}}'}},
        'm5': {'syntax': 'pug', 'text': ['x', '', 'y'], 'options': {'bem.enabled': True, 'comment.enabled': True, 'output.indent': '  ', 'output.newline': '\r\n'}},
        'm9': {'variables': {'lang': 'ru', 'charset': 'koi8-r'}, 'cache': k3},
        'm10': {'variables': {'lang': 'de'}, 'cache': k3},
        'm11': {'text': [], 'options': {'output.indent': '    '}},
        'm7': {'syntax': 'jsx', 'options': {'markup.attributes': {'class': 'class', 'for': 'for'}}},
        'm8': {'syntax': 'jsx'},
        's9': {'type': 'stylesheet', 'options': {'stylesheet.unitAliases': {'v': 'vw', 'r': 'rpx'}}},
        's10': {'type': 'stylesheet', 'snippets': {'gtx': 'grid-template: repeat(2, ${1'}, 'options': {'stylesheet.intUnit': 'px'}, 'cache': k1},
        's1': {'type': 'stylesheet', 'snippets': dict(S0), 'options': {'stylesheet.intUnit': 'pt'}, 'cache': k1},
        's2': {'type': 'stylesheet', 'snippets': dict(S0R), 'options': {'stylesheet.intUnit': 'px'}, 'cache': k1},
        's3': {'type': 'stylesheet', 'snippets': dict(S1), 'options': {'stylesheet.intUnit': 'pt'}, 'cache': k1},
        's4': {'type': 'stylesheet', 'snippets': dict(S0R), 'options': {'stylesheet.intUnit': 'px'}},
        's5': emmet.Config({'type': 'stylesheet', 'snippets': dict(S0), 'options': {'stylesheet.intUnit': 'pt'}, 'cache': k2}),
        's6': {'type': 'stylesheet', 'syntax': 'scss', 'options': {'stylesheet.intUnit': 'px'}, 'cache': k1},
        's7': {'type': 'stylesheet', 'snippets': dict(S0), 'options': {'stylesheet.intUnit': 'pt'}, 'cache': k1, 'context': {'name': '@@section'}},
        's8': {'type': 'stylesheet', 'snippets': dict(S0), 'options': {'stylesheet.intUnit': 'pt'}, 'cache': k1, 'context': {'name': '@@property'}},
    }
    return o, [k1, k2, k3]


def _typ(name):
    return 'markup' if name[0] == 'm' else 'css'


def _snapshot(emmet, obj):
    """comparable value of a caller object, caches excluded (filling the caller's cache is its documented purpose)"""
    if isinstance(obj, emmet.Config):
        uc = {k: v for k, v in obj.user_config.items() if k != 'cache'}
        return ('Config', obj.type, obj.syntax, copy.deepcopy(uc), copy.deepcopy(obj.variables), copy.deepcopy(obj.snippets),
                {k: (v if not callable(v) else id(v)) for k, v in obj.options.items()}, copy.deepcopy(obj.context))
    return ('dict', copy.deepcopy({k: v for k, v in obj.items() if k != 'cache'}))


def _text_state(emmet, obj, initial):
    d = obj.user_config if isinstance(obj, emmet.Config) else obj
    if 'text' not in d:
        return 'absent'
    if d['text'] is None:
        return 'None'
    if 'text' in initial and d['text'] == initial['text']:
        return 'T' if d['text'] else 'E'
    return 'other'


def _call(emmet, obj, abbr):
    from emmet.scanner import ScannerException
    from emmet.token_scanner import TokenScannerException
    try:
        return ['ok', emmet.expand(abbr, obj)]
    except (ScannerException, TokenScannerException) as ex:
        return ['parse-error', type(ex).__name__, getattr(ex, 'pos', None)]
    except Exception as ex:
        return ['internal', type(ex).__name__, str(ex)[:100]]


def _freeze(v, depth=0):
    """structural value of a table: containers by content, library objects by class and attribute values, anything else by itself"""
    if depth > 12:
        return '...'
    if isinstance(v, dict):
        return ('dict', tuple((repr(k), _freeze(x, depth + 1)) for k, x in v.items()))
    if isinstance(v, (list, tuple)):
        return (type(v).__name__, tuple(_freeze(x, depth + 1) for x in v))
    if isinstance(v, (set, frozenset)):
        return ('set', tuple(sorted(repr(x) for x in v)))
    if (getattr(type(v), '__module__', '') or '').startswith('emmet') and not isinstance(v, type):
        names = [n for c in type(v).__mro__ for n in getattr(c, '__slots__', ())] + list(getattr(v, '__dict__', {}))
        return (type(v).__name__, tuple((n, _freeze(getattr(v, n, None), depth + 1)) for n in names))
    if isinstance(v, (str, int, float, bool, type(None))):
        return v
    return type(v).__name__


def _tables():
    """the module-level tables of the library - every dict / list / set bound to a global name of an emmet module - with their
    structural value now"""
    snap = {}
    for mname, mod in list(sys.modules.items()):
        if mname == 'emmet' or mname.startswith('emmet.'):
            for k, v in list(vars(mod).items()):
                if isinstance(v, (dict, list, set)) and not k.startswith('__'):
                    snap[(mname, k)] = (v, _freeze(v), copy.deepcopy(v) if _plain(v) else None)
    return snap


def _plain(v, depth=0):
    if isinstance(v, dict):
        return depth < 8 and all(_plain(x, depth + 1) for x in v.values())
    if isinstance(v, (list, tuple, set)):
        return depth < 8 and all(_plain(x, depth + 1) for x in v)
    return isinstance(v, (str, int, float, bool, type(None)))


def _tables_same(snap):
    for key, (live, frozen, _) in snap.items():
        if _freeze(live) != frozen:
            return key
    return None


def _census():
    gc.collect()
    return [o for o in gc.get_objects() if (getattr(type(o), '__module__', '') or '').startswith('emmet')]


def _reachable_ids(roots):
    """ids of everything the caller holds: data containers and library instances reachable from the caller-owned
    objects.  Types, modules and functions are not followed (an instance refers to its class, the class to the module
    globals - following those edges would make the whole interpreter 'caller-owned')."""
    seen = set()
    stack = list(roots)
    while stack:
        o = stack.pop()
        i = id(o)
        if i in seen:
            continue
        seen.add(i)
        if isinstance(o, (dict, list, tuple, set, frozenset)) or (getattr(type(o), '__module__', '') or '').startswith('emmet'):
            for x in gc.get_referents(o):
                if not isinstance(x, type) and type(x).__name__ not in ('module', 'function', 'builtin_function_or_method', 'method'):
                    stack.append(x)
    return seen


def _fresh_main(obj_name, ab):
    emmet = common.import_emmet()
    objs, _ = make_objects(emmet)
    print(json.dumps(_call(emmet, objs[obj_name], ABBR[_typ(obj_name)][ab])))


def _fresh_results(kinds):
    """result of every call kind in a pristine interpreter (one process per kind)"""
    from concurrent.futures import ThreadPoolExecutor
    env = dict(os.environ, VERIF_REPO=common.REPO, PYTHONHASHSEED='0', PYTHONDONTWRITEBYTECODE='1')

    def one(kind):
        p = subprocess.run([sys.executable, os.path.abspath(__file__), '--fresh', kind[0], kind[1]], capture_output=True,
                           text=True, env=env, timeout=120)
        if p.returncode != 0:
            raise common.MachineryError('fresh-interpreter run failed for %r: %s' % (kind, p.stderr[-500:]))
        return kind, json.loads(p.stdout.strip().splitlines()[-1])
    with ThreadPoolExecutor(common.NPROC) as ex:
        return dict(ex.map(one, kinds))


_FRESH = {}


def _run_histories(items):
    import emmet
    out = []
    for tid, hist in items:
        tables = _tables()
        objs, caches = make_objects(emmet)
        initial = {n: (o.user_config if isinstance(o, emmet.Config) else o) for n, o in objs.items()}
        initial = {n: copy.deepcopy({k: v for k, v in d.items() if k != 'cache'}) for n, d in initial.items()}
        snaps = {n: _snapshot(emmet, o) for n, o in objs.items()}
        base_ids = set(id(o) for o in _census())
        calls = []
        for c, ab in hist:
            res = _call(emmet, objs[c], ABBR[_typ(c)][ab])
            live_objs = _census()
            held = _reachable_ids(list(objs.values()) + caches)
            leaked = [o for o in live_objs if id(o) not in base_ids and id(o) not in held]
            live = len(leaked)
            leaked_types = sorted(set(type(o).__name__ for o in leaked))[:5]
            del leaked, live_objs
            same = all(_snapshot(emmet, objs[n]) == snaps[n] for n in objs)
            changed = _tables_same(tables)
            calls.append({'c': c, 'ab': ab, 'texts': {n: _text_state(emmet, objs[n], initial[n]) for n in objs},
                          'same': same, 'fresh': res == _FRESH[(c, ab)], 'live': live, 'tables': changed is None,
                          'result': res, 'leaked_types': leaked_types, 'changed_table': list(changed) if changed else None})
            if changed:
                # put the table back so that the rest of the history (and the next one in this worker) is judged on its own
                live_t, _, saved = tables[changed]
                if saved is not None and isinstance(live_t, dict):
                    live_t.clear(); live_t.update(copy.deepcopy(saved))
                elif saved is not None and isinstance(live_t, list):
                    live_t[:] = copy.deepcopy(saved)
                elif saved is not None:
                    live_t.clear(); live_t.update(copy.deepcopy(saved))
                tables = _tables()
        out.append({'tid': tid, 'calls': calls})
    return out


def run(out):
    quick = out.tier == 'quick'
    out.rule = ('one case per call history generated by Session.tla (all histories up to the bound over 128 call kinds = 18 caller '
                'objects x abbreviations, plus simulated longer ones); non-trivial = at least two calls that touch the same caller '
                'object or the same cache; distinct by history')
    out.assumptions = ['CPython gc census: an object of a class defined in emmet.* that is alive after the call, was not alive before '
                       'the history and is not reachable from a caller-owned object (config, Config, cache dict) counts as retained',
                       'objects reachable from a cache dict the caller passed in are not retention (filling it is its purpose)',
                       'fresh-interpreter results: one new Python process per call kind']
    import emmet  # noqa
    # ---- spec self-test: every named deviation must be caught by TLC (non-vacuity of the invariants)
    devs = ['noRestore', 'addsKey', 'bakeUnits', 'staleTable', 'leakBem', 'scopeInCache', 'markupCache', 'dropFalsyText']
    expect = {'noRestore': 'CallerConfigStable', 'addsKey': 'CallerConfigStable', 'bakeUnits': 'ResultPure',
              'staleTable': 'ResultPure', 'leakBem': 'NoRetention', 'scopeInCache': 'ResultPure', 'markupCache': 'ResultPure',
              'dropFalsyText': 'CallerConfigStable'}
    for d in (devs if not quick else devs[out.seed % 8:][:1] + ['bakeUnits']):
        r = common.run_tlc('Session', cfg='Session_selftest', constants={'MaxCalls': 3, 'Deviations': {d}}, workers=4)
        if r.violated != expect[d]:
            raise common.MachineryError('spec self-test: deviation %s should violate %s, TLC says %r' % (d, expect[d], r.violated))
        out.add_tlc('selftest-deviation-' + d, r, violated_as_expected=r.violated)

    # a caller may adjust its own Config object: the tables it holds are its own, not the library's
    snap = _tables()
    for cfg0 in ({}, {'type': 'stylesheet'}, {'syntax': 'pug'}):
        c = emmet.Config(dict(cfg0))
        c.options['output.indent'] = 'QQ'
        c.options['x.custom'] = 1
        c.variables['lang'] = 'zz'
        c.snippets['zzqq'] = 'qq'
        changed = _tables_same(snap)
        if changed:
            out.violation('history: library-table-modified', {'history': [['Config(%r)' % (cfg0,), 'the caller sets entries of .options / .variables / .snippets of its own Config object']],
                                                              'observed': {'changed_table': list(changed)}})
            break
    insts = [('histories-exhaustive', dict(constants={'MaxCalls': 2, 'Deviations': set()})),
             ('histories-simulated', dict(constants={'MaxCalls': 6 if quick else 10, 'Deviations': set()},
                                          simulate=3 if quick else 40, depth=40 if quick else 70, seed=out.seed))]
    if not quick:
        # all histories of three calls are enumerated by TLC (the invariants are checked on all of them); a deterministic sample is executed
        insts.insert(1, ('histories-3-calls', dict(constants={'MaxCalls': 3, 'Deviations': set()})))
    hists = {}
    for name, kw in insts:
        r = common.run_tlc('Session', timeout=3000, heap='8g', **kw)
        if r.violated:
            out.add_tlc(name, r)
            out.violation('spec-invariant %s violated in the model' % r.violated, {'instance': name, 'tlc': r.error[:3000]})
            continue
        n0 = len(hists)
        new_h = set(tuple((c, ab) for c, ab in v['h']) for v in r.vectors())
        r.tagged.clear()                # the census walks every object of the interpreter: keep the heap small before forking workers
        if r.mode == 'simulate':
            new_h = set(common.sample(sorted(new_h), 700 if quick else 30000, out.seed))
        elif quick and name == 'histories-exhaustive':
            # quick tier: of the two-call histories that mix a markup and a stylesheet call (which share no state in the model) every
            # fourth is executed, chosen by a hash; all others are executed
            import zlib as _z
            new_h = set(h for h in new_h if len(h) < 2 or h[0][0][0] == h[1][0][0] or (_z.crc32(repr(h).encode()) + out.seed) % 4 == 0)
        elif name == 'histories-3-calls':
            new_h = set(common.sample(sorted(new_h), 90000, out.seed))
        for h in new_h:
            hists.setdefault(h, None)
        del new_h
        out.add_tlc(name, r, histories=len(hists) - n0)
        if r.mode == 'bfs' and name == 'histories-exhaustive':
            out.exhaustive = r.exhaustive
    # histories of three calls that the quick tier would otherwise only sample: a shared cache is filled, then the caller whose snippet
    # table cannot be converted calls twice (both calls raise; nothing of the failed conversion may stay in the cache)
    for first in ('s1', 's3', 's6'):
        for a in ('num', 'plain', 'tab'):
            hists.setdefault(((first, a), ('s10', a), ('s10', a)), None)
            hists.setdefault(((first, a), ('s10', a), (first, a)), None)
    hl = sorted(hists)
    del hists
    gc.collect()
    if not quick and len(hl) > 170000:
        raise common.MachineryError('unexpected number of histories %d' % len(hl))
    kinds = sorted(set(k for h in hl for k in h))
    _FRESH.update(_fresh_results(kinds))
    for k, v in _FRESH.items():
        if v[0] == 'internal':
            out.violation('internal error in a fresh interpreter', {'call': k, 'result': v})
    items = list(enumerate(hl, 1))
    traces = common.pool_map(_run_histories, items, chunk=60)
    tl = [{'tid': t['tid'], 'calls': [{k: c[k] for k in ('c', 'ab', 'texts', 'same', 'fresh', 'live', 'tables')} for c in t['calls']]}
          for t in traces]
    verdicts, r = common.validate_traces('Trace_Session', tl, heap='8g')
    ncalls = sum(len(t['calls']) for t in traces)
    out.add_tlc('history-trace-validation', r, traces=len(traces), calls=ncalls)
    out.traces += len(traces)
    out.evaluations += ncalls
    by_tid = {t['tid']: t for t in traces}
    for tid, v in verdicts.items():
        if v[0] == 'REJECT':
            t = by_tid[tid]
            idx = v[1]
            c = t['calls'][idx - 1]
            out.violation('history: ' + v[2], {'history': [[x['c'], x['ab']] for x in t['calls'][:idx]],
                                               'abbreviations': [ABBR[_typ(x['c'])][x['ab']] for x in t['calls'][:idx]],
                                               'call_index': idx, 'observed': {k: c[k] for k in ('texts', 'same', 'fresh', 'live', 'tables', 'changed_table', 'result', 'leaked_types')},
                                               'fresh_result': _FRESH[(c['c'], c['ab'])]})

    def shares(h):
        seen = set()
        for c, ab in h:
            key = ('k3' if c in ('m9', 'm10') else c) if c[0] == 'm' else ('k1' if c in ('s1', 's2', 's3', 's6', 's7', 's8', 's10') else c)
            if key in seen:
                return True
            seen.add(key)
        return False
    out.distinct_count = sum(1 for h in hl if shares(h))
    for h in hl[len(hl) // 2: len(hl) // 2 + 3]:
        out.sample({'history': [list(x) for x in h], 'abbreviations': [ABBR[_typ(c)][ab] for c, ab in h]})


def replay(case):
    emmet = common.import_emmet()
    c = case['case']
    hist = [tuple(x) for x in c['history']]
    _FRESH.update(_fresh_results(sorted(set(hist))))
    t = _run_histories([(1, hist)])[0]
    return json.dumps({'observed_now': t['calls'][-1], 'fresh': _FRESH[hist[-1]]}, indent=1, default=repr)


if __name__ == '__main__':
    if len(sys.argv) == 4 and sys.argv[1] == '--fresh':
        _fresh_main(sys.argv[2], sys.argv[3])
