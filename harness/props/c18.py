"""C18 - tokenizers are lossless: token spans tile the abbreviation.

Strings.tla enumerates every string over the abbreviation alphabets up to the bound (and simulates longer ones), Fragments.tla every
sequence of syntactic fragments up to its bound; the real
markup tokenizer and the real stylesheet tokenizer (property and value mode) are run on each; every token list
(type, start, end) or raised error is recorded as a trace and validated by Trace_Tiling.tla.
"""
import json
import zlib

import common

MARKUP_ALPHA = {"a", "A", "1", "$", "#", "*", "@", "-", "_", "{", "}", "[", "]", "(", ")", ">", "+", "^", ".", "/", "=", "BS", "'", "DQ", " ", ":", "~", "`", "|"}
CSS_ALPHA = {"a", "f", "t", "1", "0", "$", "#", "@", "-", "{", "}", "(", ")", "+", ".", "/", "BS", "'", "DQ", " ", ":", ",", "!", "%", "p", "~", "`", "|"}
STRUCT_M = {"a", "$", "#", "*", "@", "-", "_", "^", "{", "}", "[", "]", "(", ")", ">", ".", "=", "BS", "DQ", " ", "1"}
# syntactic fragments for Fragments.tla (no upper-case letters: BS / DQ are the only names replaced inside a fragment)
FRAG_M = {"x", "a1", "#i", ".c", ".b_e-m", "[t=v]", "[DQqDQ]", "['q']", "[t]", "[d.]", "[!m=]", "{t}", "{$#}", "*2", "*", ">", "+", "^", "(", ")", "/",
          "$@^2", "$$@-", ":", "[t={e}]", "{BS}}", " ", "{${1:x", "[a=${b", "BS"}
FRAG_C = {"p", "m", "10", "-", "1.5", "#f", "#fc0.5", "!", "+", "lg(", "rotate(", ")", ",", "px", "%", "$x", "${1:a}", ":", "@k", "'s'", "-a", "e", " ",
          "DQ", "@", "0", "rgb(0,0,0)", "${1", "${a{", "BS"}
STRUCT_C = {"a", "1", "$", "#", "-", "{", "}", "(", ")", ".", "'", ":", ",", "!", "f", "t", "@", " "}


# characters the model writes for classes outside ASCII (TLC prints non-ASCII as "?"): a letter, a digit that is not a decimal
# (str.isdigit() but not str.isdecimal()), a decimal digit of another script
SUBST = {'~': 'é', '`': '²', '|': '٣'}


def _sub(s):
    for k, v in SUBST.items():
        s = s.replace(k, v)
    return s


def _chunk(items):
    from emmet.abbreviation.tokenizer import tokenize as mtok
    from emmet.css_abbreviation.tokenizer import tokenize as ctok
    from emmet.scanner import ScannerException
    out = []
    for tid, s, mode in items:
        src = _sub(s)
        try:
            with common.Alarm(10):
                toks = mtok(src) if mode == 'markup' else ctok(src, mode == 'css-value')
                if tid % 3 == 0:
                    # the token objects belong to the caller: changed in place, they must not come back from the next identical call
                    common.scramble(toks)
                    toks = mtok(src) if mode == 'markup' else ctok(src, mode == 'css-value')
            rec = {'tid': tid, 'src': src, 'mode': mode, 'len': len(src), 'kind': 'tokens', 'pos': 0,
                   'toks': [{'t': str(getattr(t, 'type', type(t).__name__)), 's': -1 if getattr(t, 'start', None) is None else int(t.start), 'e': -1 if getattr(t, 'end', None) is None else int(t.end)} for t in toks]}
        except ScannerException as ex:
            rec = {'tid': tid, 'src': src, 'mode': mode, 'len': len(src), 'kind': 'error', 'toks': [],
                   'pos': -99 if ex.pos is None else int(ex.pos)}
        except Exception as ex:
            rec = {'tid': tid, 'src': src, 'mode': mode, 'len': len(src), 'kind': 'other', 'toks': [], 'pos': 0,
                   'exception': type(ex).__name__, 'site': common.innermost_emmet_frame(ex)}
        out.append(rec)
    return out


def _project(root, TokenGroup):
    """the real parser result in the abstract form AbbrSyntax.tla prints (token spans)"""
    def span(toks):
        return [] if not toks else [toks[0].start, toks[-1].end]
    nodes = []

    def walk(n, parent):
        for ch in n.elements:
            if isinstance(ch, TokenGroup):
                nodes.append({'p': parent, 'k': 'g', 'rep': ch.repeat.start if ch.repeat else -1, 'name': [], 'hn': False, 'hv': False, 'ha': False,
                              'value': [], 'sc': False, 'attrs': []})
                me = len(nodes)
            else:
                attrs = []
                for a in (ch.attributes or []):
                    sh = ''
                    if a.name and a.name[0].start is None:
                        sh = a.name[0].value + ('*' if a.multiple else '')
                        nm = []
                    else:
                        nm = span(a.name)
                    attrs.append({'name': nm, 'value': span(a.value), 'sh': sh})
                nodes.append({'p': parent, 'k': 'e', 'rep': ch.repeat.start if ch.repeat else -1, 'name': span(ch.name), 'hn': ch.name is not None,
                              'hv': ch.value is not None, 'ha': ch.attributes is not None, 'value': span(ch.value), 'sc': ch.self_close, 'attrs': attrs})
                me = len(nodes)
            walk(ch, me)
    walk(root, 0)
    return nodes


def _model_chunk(vecs):
    """compare the model's tokens / parse result (AbbrSyntax.tla) with the real tokenizer and parser"""
    from emmet.abbreviation.tokenizer import tokenize
    from emmet.abbreviation.parser import parse, TokenGroup
    from emmet.scanner import ScannerException
    from emmet.token_scanner import TokenScannerException
    diff = []
    for v in vecs:
        src = _sub(v['s'])
        exp = v['out']
        try:
            toks = tokenize(src)
            gt = [[t.type, t.start, t.end] for t in toks]
            terr = -1
        except ScannerException as ex:
            gt, terr, toks = None, ex.pos, None
        except Exception as ex:
            diff.append(('tokenizer raised ' + type(ex).__name__, src))
            continue
        if terr != exp['terr'] or (terr == -1 and gt != [list(x) for x in exp['toks']]):
            diff.append(('tokens', src))
            continue
        if toks is None:
            continue
        try:
            got = {'kind': 'ok', 'pos': -1, 'nodes': _project(parse(toks, {}), TokenGroup)}
        except TokenScannerException as ex:
            got = {'kind': 'tokerr', 'pos': -2 if ex.pos is None else ex.pos, 'nodes': []}
        except Exception as ex:
            diff.append(('parser raised ' + type(ex).__name__, src))
            continue
        want = {'kind': exp['kind'], 'pos': exp['pos'], 'nodes': exp['nodes']}
        if json.loads(json.dumps(got)) != want:
            diff.append(('parse tree' if got['kind'] == want['kind'] == 'ok' else 'parse outcome', src))
    return diff


def _convert_chunk(vecs):
    """compare the model's outcome class, error position and converted node listing (AbbrConvert.tla) with abbreviation.parse()"""
    import grammar
    from emmet.abbreviation import parse
    from emmet.scanner import ScannerException
    from emmet.token_scanner import TokenScannerException
    diff = []
    for v in vecs:
        src = _sub(v['s'])
        exp = json.loads(_sub(json.dumps(v['out'], ensure_ascii=False)))
        try:
            got = {'kind': 'ok', 'pos': -1, 'nodes': grammar._listing(parse(src).children, 0, [])}
        except ScannerException as ex:
            got = {'kind': 'scanerr', 'pos': ex.pos, 'nodes': []}
        except TokenScannerException as ex:
            got = {'kind': 'tokerr', 'pos': -2 if ex.pos is None else ex.pos, 'nodes': []}
        except Exception as ex:
            got = {'kind': 'raised ' + type(ex).__name__, 'pos': -1, 'nodes': []}
        if got != exp:
            diff.append(('converted tree' if got['kind'] == exp['kind'] == 'ok' else 'outcome %s/%s' % (exp['kind'], got['kind']), src))
    return diff


def run(out):
    quick = out.tier == 'quick'
    out.rule = ('one trace per (string generated by Strings.tla, tokenizer mode in markup / css-property / css-value); non-trivial = the '
                'tokenizer returned at least two tokens; distinct by (string, mode)')
    out.assumptions = ['TLC, Json/IOUtils trusted; "~", "`", "|" in the model stand for a non-ASCII letter, a non-decimal digit character and a decimal digit of another script']
    insts = [
        ('markup-exhaustive', 'markup', dict(constants={'Alphabet': MARKUP_ALPHA, 'MaxLen': 3 if quick else 4})),
        ('markup-structural', 'markup', dict(constants={'Alphabet': STRUCT_M, 'MaxLen': 10 if quick else 14},
                                             simulate=3 if quick else 45, depth=10 if quick else 14, seed=out.seed)),
        # every combination of the numbering / repeater symbols (the modifiers after $ and @ only combine at length 4 and more)
        ('markup-numbering', 'markup', dict(constants={'Alphabet': {"$", "@", "^", "-", "1", "*", "a"}, 'MaxLen': 5 if quick else 6})),
        ('css-exhaustive', 'css', dict(constants={'Alphabet': CSS_ALPHA, 'MaxLen': 3 if quick else 4})),
        ('css-structural', 'css', dict(constants={'Alphabet': STRUCT_C, 'MaxLen': 10 if quick else 14},
                                       simulate=3 if quick else 45, depth=10 if quick else 14, seed=out.seed + 1)),
    ]
    insts += [('markup-fragments', 'markup', dict(module='Fragments', constants={'Frags': FRAG_M, 'MaxFrag': 3 if quick else 4})),
              ('css-fragments', 'css', dict(module='Fragments', constants={'Frags': FRAG_C, 'MaxFrag': 3 if quick else 4}))]
    _model_comparison(out, quick)
    tid = 0
    for name, lang, kw in insts:
        r = common.run_tlc(kw.pop('module', 'Strings'), timeout=3000, heap='12g', **kw)
        strings = sorted(set(v['s'] for v in r.vectors()))
        if r.mode == 'simulate':
            strings = common.sample(strings, 15000 if quick else 200000, out.seed, key=str)
        if r.mode == 'bfs':
            out.exhaustive = r.exhaustive if out.exhaustive is None else (out.exhaustive and r.exhaustive)
        out.add_tlc(name + '-generator', r, strings=len(strings))
        modes = ['markup'] if lang == 'markup' else ['css-property', 'css-value']
        items = []
        for s in strings:
            for m in modes:
                tid += 1
                items.append((tid, s, m))
        traces = common.pool_map(_chunk, items, chunk=4000)
        slim = [{k: t[k] for k in ('tid', 'len', 'kind', 'pos', 'toks')} for t in traces]
        verdicts, r2 = common.validate_traces('Trace_Tiling', slim, heap='5g', batch_events=40000, parallel=4)
        out.add_tlc(name + '-trace-validation', r2, traces=len(traces), tokens=sum(len(t['toks']) for t in traces),
                    errors=sum(1 for t in traces if t['kind'] == 'error'))
        out.traces += len(traces)
        out.evaluations += len(traces)
        by = {t['tid']: t for t in traces}
        for t in traces:
            if len(t['toks']) >= 2:
                out.distinct.add((t['src'], t['mode']))
        for k, v in verdicts.items():
            if v[0] == 'REJECT':
                t = by[k]
                out.violation('tiling: ' + v[2], {'input': t['src'], 'mode': t['mode'], 'tokens': t['toks'], 'kind': t['kind'],
                                                  'pos': t['pos'], 'token_index': v[1], 'exception': t.get('exception'), 'site': t.get('site')})
        sm = sorted(traces, key=lambda t: zlib.crc32(repr((t['src'], t['mode'])).encode()))
        for t in sm[:2]:
            out.sample({'input': t['src'], 'mode': t['mode'], 'kind': t['kind'], 'tokens': t['toks'][:6], 'pos': t['pos']})


def _css_model_chunk(vecs, isv):
    from emmet.css_abbreviation.tokenizer import tokenize
    from emmet.scanner import ScannerException
    diff = []
    for v in vecs:
        try:
            got = (-1, [[type(t).__name__, t.start, t.end] for t in tokenize(v['s'], isv)])
        except ScannerException as e:
            got = (e.pos, None)
        except Exception as e:
            diff.append(('css tokenizer raised %s' % type(e).__name__, v['s']))
            continue
        exp = (v['err'], [list(t) for t in v['toks']] if v['err'] == -1 else None)
        if got != exp:
            diff.append(('css tokens (value mode)' if isv else 'css tokens (property mode)', v['s']))
    return diff


def _css_model_chunk_value(vecs):
    return _css_model_chunk(vecs, True)


def _css_model_chunk_property(vecs):
    return _css_model_chunk(vecs, False)


def _model_comparison(out, quick):
    """conformance of the specification's own tokenizer + parser (AbbrSyntax.tla) and convert() (AbbrConvert.tla) with the real code; differences are
    reported as diagnostics: the property is the tiling, not a particular token boundary"""
    insts = [('markup-model-all-symbols', dict(constants={'Alphabet': MARKUP_ALPHA - {"|"}, 'MaxLen': 3 if quick else 4})),
             ('markup-model-structural', dict(constants={'Alphabet': {"a", "1", "$", "#", "*", "@", "{", "}", "[", "]", "(", ")", ">", "^", ".", "=", "BS", "DQ", " "},
                                                         'MaxLen': 3 if quick else 5}))]
    insts = [(n, 'AbbrSyntaxMC', kw, _model_chunk) for n, kw in insts] + \
            [(n.replace('markup-model', 'convert-model'), 'AbbrConvertMC', dict(constants=dict(kw['constants'], RepeatLimit=1000000)), _convert_chunk)
             for n, kw in insts]
    # the stylesheet tokenizer transcription (CssTokenizer.tla) in both modes
    css_alpha = CSS_ALPHA - {"~", "`", "|", "t"}
    for isv in (False, True):
        insts.append(('css-model-%s' % ('value' if isv else 'property'), 'CssTokenizerMC',
                      dict(constants={'Alphabet': css_alpha, 'MaxLen': 3 if quick else 4, 'IsValue': isv}), _css_model_chunk_value if isv else _css_model_chunk_property))
    for name, module, kw, chunk in insts:
        r = common.run_tlc(module, timeout=3000, heap='12g', **kw)
        if r.violated:
            out.add_tlc(name, r)
            out.violation('spec-invariant %s violated in the tokenizer model' % r.violated, {'instance': name, 'tlc': r.error[:2000]})
            continue
        vecs = r.vectors()
        r.tagged = {}
        diff = common.pool_map(chunk, vecs, chunk=1500)
        fam = {}
        for what, src in diff:
            fam.setdefault(what, []).append(src)
        out.add_tlc(name, r, strings=len(vecs), model_differs_from_code={k: {'count': len(v), 'examples': sorted(v, key=len)[:5]} for k, v in fam.items()})
        out.evaluations += len(vecs)
        for k, v in fam.items():
            out.diag('model-vs-code: ' + k, len(v))


def replay(case):
    c = case['case']
    return repr(_chunk([(1, c['input'], c['mode'])])[0])
