"""C02 - repeaters make exactly N copies and number them as documented; maxRepeat budget.

AbbrRepeat.tla: generator + step-level copy machine (EnterNode/BeginCopy/NextKid/EndCopy with budget) + two contracts
(stack-free unrolling with Counter(i, N, base, rev); completed-copies threading for any budget); TLC checks machine =
contracts, the budget arithmetic, "no second copy begins once the budget is used up", padding.  Every terminal state
prints abbreviation + limit + expected listing, replayed through expand(abbr, {'maxRepeat': limit}).
"""
import copy
import zlib

import common
import grammar
import project_html as ph


def _with_snippet(exp):
    """the expected listing when the name y is a snippet with the two-level definition y1>y2 (C14: what is written on the alias
    goes to the top-level element of the definition, its children into the deepest one)"""
    out, shifts = [], []
    for e in exp:
        while shifts and shifts[-1] >= e['d']:
            shifts.pop()
        d = e['d'] + len(shifts)
        if e['n'] == 'y':
            out.append(dict(e, d=d, n='y1'))
            out.append({'d': d + 1, 'n': 'y2', 'pl': 'none', 'v': ''})
            shifts.append(e['d'])
        else:
            out.append(dict(e, d=d))
    return out


def _chunk(vecs):
    import emmet
    bad = []
    work = []
    for v in vecs:
        work.append((v, None))
        if any(e['n'] == 'y' for e in v['out']) and not (v['truncated'] and v['rev']):
            # the same abbreviation with y defined as a snippet of two levels: every copy gets its own definition
            work.append((dict(v, out=_with_snippet(v['out'])), {'y': 'y1>y2'}))
    for v, snippets in work:
        cfg = {'options': {'output.format': bool(zlib.crc32(v['abbr'].encode()) & 1)}}
        if v['limit']:
            cfg['maxRepeat'] = v['limit']
        case = {'abbr': v['abbr'], 'maxRepeat': v['limit'] or None, 'format': cfg['options']['output.format']}
        if snippets:
            cfg['snippets'] = snippets
            case['snippets'] = snippets
        before = copy.deepcopy(cfg)
        try:
            with common.Alarm(20):
                text = emmet.expand(v['abbr'], cfg)
                if cfg.get('maxRepeat') and zlib.crc32(v['abbr'].encode()) % 3 == 0:
                    # the limit belongs to the call that carries it: the same dict without it expands without a limit afterwards
                    lim = cfg.pop('maxRepeat')
                    free = emmet.expand(v['abbr'], cfg)
                    cfg['maxRepeat'] = lim
                    if free != emmet.expand(v['abbr'], {k: x for k, x in cfg.items() if k not in ('maxRepeat', 'max_repeat')}):
                        bad.append(('copies', dict(case, detail='the limit of an earlier call with the same configuration dict is still applied', actual=free)))
        except Exception as ex:
            bad.append(('expand raised', dict(case, exception=type(ex).__name__, site=common.innermost_emmet_frame(ex))))
            continue
        if cfg != before:
            bad.append(('caller configuration modified', dict(case, before=repr(before), after=repr(cfg))))
        try:
            got = [x for x in ph.tree(ph.lex(text)) if x['n'] != '#text']
        except ph.LexError as ex:
            bad.append(('output is not well-formed markup', dict(case, output=text, lexer=str(ex))))
            continue
        exp = v['out']
        silent_values = v['truncated'] and v['rev']      # "@-" is defined for a complete run only
        if silent_values and any(e['pl'] == 'name' for e in exp):
            shape_g = [x['d'] for x in got]
            shape_e = [e['d'] for e in exp]
            if shape_g != shape_e:
                bad.append(('copies', dict(case, expected=exp, actual=[[x['d'], x['n']] for x in got], output=text)))
            continue
        ok = len(got) == len(exp)
        why = 'copies'
        if ok:
            for g, e in zip(got, exp):
                if g['d'] != e['d'] or g['n'] != e['n']:
                    ok, why = False, 'copies' if g['d'] != e['d'] else 'numbering'
                    break
                if silent_values or e['pl'] in ('none', 'name'):
                    continue
                attrs = {a[0]: a[2] for a in g['a']}
                if e['pl'] == 'class':
                    val = attrs.get('class')
                    want = 'c' + e['v']
                elif e['pl'] == 'id':
                    val = attrs.get('id')
                    want = 'j' + e['v']
                elif e['pl'] == 'attr':
                    val = attrs.get('t')
                    want = 'v' + e['v']
                else:
                    val = g['t'].strip()
                    want = 't' + e['v']
                if val != want:
                    ok, why = False, 'numbering'
                    break
        if not ok:
            bad.append((why, dict(case, expected=exp, actual=[[x['d'], x['n'], x['a'], x['t'].strip()] for x in got], output=text)))
    return bad


def run(out):
    quick = out.tier == 'quick'
    out.rule = ('one case per terminal state of AbbrRepeat.tla = (abbreviation, maxRepeat limit); non-trivial = at least one repeater '
                'and one numbering form; distinct by (abbreviation, limit)')
    out.assumptions = ['*0 and maxRepeat 0 are not generated (undocumented: one copy / unlimited)',
                       'values of "@-" forms under a truncating maxRepeat are not compared (the statement defines the last copy for a '
                       'complete run only); the number and nesting of copies still is',
                       'tag lexer harness/project_html.py trusted']
    allp = {"name", "class", "attr", "text", "id"}
    insts = [
        ('structure', dict(constants=dict(MaxTok=6 if quick else 7, Names={"x"}, Reps={2, 3}, Limits={0, 2, 3} if quick else {0, 1, 2, 3, 5},
                                          MaxGroups=2, MaxReps=3, Places={"name"}, FormIdx={1, 2} if quick else {1, 2, 5}))),
        ('numbering-forms', dict(constants=dict(MaxTok=3, Names={"x"}, Reps={2, 3} if quick else {1, 2, 4}, Limits={0, 2} if quick else {0, 1, 3},
                                                MaxGroups=1, MaxReps=2, Places=allp, FormIdx={1, 2, 3, 4, 5, 6, 7, 8, 9, 10}))),
        ('simulated', dict(constants=dict(MaxTok=14 if quick else 22, Names={"x", "y"}, Reps={2, 3, 4}, Limits={0, 1, 2, 3, 5, 8},
                                          MaxGroups=2, MaxReps=4, Places=allp, FormIdx={1, 2, 3, 4, 5, 6, 7, 8, 9, 10}),
                           simulate=4 if quick else 90, depth=120 if quick else 260, seed=out.seed)),
    ]
    for name, kw in insts:
        r = common.run_tlc('AbbrRepeat', timeout=3000, heap='12g', coverage=(name == 'structure' and not quick), **kw)
        if r.violated:
            out.add_tlc(name, r)
            out.violation('spec-invariant %s violated in the model' % r.violated, {'instance': name, 'tlc': r.error[:3000]})
            continue
        vecs = {}
        for v in r.vectors():
            if len(v['out']) <= 300:
                vecs.setdefault((v['abbr'], v['limit']), v)
        if r.mode == 'simulate':
            vecs = dict(common.sample(vecs.items(), 3000 if quick else 60000, out.seed, key=lambda kv: repr(kv[0])))
        if r.mode == 'bfs':
            out.exhaustive = r.exhaustive if out.exhaustive is None else (out.exhaustive and r.exhaustive)
        bad = common.pool_map(_chunk, list(vecs.values()), chunk=1500)
        out.add_tlc(name, r, vectors=len(vecs), truncated=sum(1 for v in vecs.values() if v['truncated']))
        out.traces += len(vecs)
        out.evaluations += len(vecs)
        for k, v in vecs.items():
            if '*' in k[0] and '$' in k[0]:
                out.distinct.add(k)
        for what, case in bad:
            out.violation(what, case)
        ks = sorted(vecs, key=lambda a: zlib.crc32(repr(a).encode()))
        for k in ks[:2]:
            out.sample({'abbr': k[0], 'maxRepeat': k[1], 'expected': [[e['d'], e['n'], e['pl'], e['v']] for e in vecs[k]['out']][:12]})
    # ---- grammar-level differential: tokenizer + parser + convert() of the specification against abbreviation.parse()
    gq = dict(NameFr={"x", "li$", "h$$@3"}, ModFr={".c$@-", "{t$@^}", "[n=$$@-5]", "#i$@^^", "{u$@1}", ".d$$@01"}, RepFr={"*1", "*2", "*3", "*"}, OpFr={">", "+", "^"},
              MaxGroups=1, MaxMods=1)
    # without a limit X*N makes exactly N copies also for large N (and large products of nested counts)
    grammar.differential(out, 'grammar-large-count', dict(NameFr={"x"}, ModFr={".c$"}, RepFr={"*1001"}, OpFr=set(), MaxGroups=0, MaxMods=1, MaxFrag=2 if quick else 3),
                         ('d', 'name', 'attrs'), 'copies (node tree of abbreviation.parse)', tree_only=True)
    grammar.differential(out, 'grammar-large-product', dict(NameFr={"x"}, ModFr=set(), RepFr={"*40", "*30"}, OpFr={">"}, MaxGroups=0, MaxMods=0, MaxFrag=5),
                         ('d', 'name'), 'copies (node tree of abbreviation.parse)', tree_only=True)
    # a padded counter in a class / id / name directly in front of the element's text
    grammar.differential(out, 'grammar-numbering-before-text', dict(NameFr={"x", "li$$"}, ModFr={".c$$", "#i$$$", "{T $}", "{${1:p} $$}", "[n=$$]"}, RepFr={"*3"},
                                                                   OpFr={">", "+"}, MaxGroups=0, MaxMods=2, MaxFrag=3 if quick else 4),
                         ('d', 'name', 'text', 'attrs'), 'numbering (node tree of abbreviation.parse)')
    for limit in ((None, 3, 1) if quick else (None, 1, 2, 3, 5)):
        grammar.differential(out, 'grammar-numbering-maxRepeat-%s' % limit, dict(gq, MaxFrag=5 if quick else 6), ('d', 'name', 'text', 'attrs'),
                             'numbering (node tree of abbreviation.parse)', limit=limit)


def replay(case):
    if 'compared' in case.get('case', {}):
        return grammar.replay(case)
    import emmet
    c = case['case']
    cfg = {'options': {'output.format': c.get('format', True)}}
    if c.get('snippets'):
        cfg['snippets'] = c['snippets']
    if c.get('maxRepeat'):
        cfg['maxRepeat'] = c['maxRepeat']
    return 'expand(%r, %r) ->\n%s\nexpected %r' % (c['abbr'], cfg, emmet.expand(c['abbr'], cfg), c.get('expected'))
