"""C07 - expand fails only with its parse errors, never with an internal error.

Strings.tla enumerates every string over the abbreviation alphabets up to the bound (every as-you-type prefix) and simulates
longer structural ones; each string - and one-character mutations of every abbreviation literal found in the repository's
tests - is expanded by the real expand() under a row of configurations (html, jsx, pug, xsl + comments, BEM, wrap text as list
and as string, context, css, scss, stylus, value context, section scope, JSON output).  The outcomes are recorded and
validated by Trace_Outcome.tla.
"""
import ast
import os
import re
import zlib

import common
from props.c18 import MARKUP_ALPHA, CSS_ALPHA, STRUCT_M, STRUCT_C, FRAG_M, FRAG_C, _sub

MARKUP_CFGS = [
    ('html', {}),
    ('jsx', {'syntax': 'jsx'}),
    ('pug', {'syntax': 'pug'}),
    ('xsl+comments', {'syntax': 'xsl', 'options': {'comment.enabled': True}}),
    ('bem', {'options': {'bem.enabled': True}}),
    ('wrap-list', {'text': ['a', '', ' b ']}),
    ('wrap-string', {'text': 'line one\nline two'}),
    ('context+bem', {'context': {'name': 'ul', 'attributes': {'class': 'blk'}}, 'options': {'bem.enabled': True}}),
    ('slim+maxRepeat', {'syntax': 'slim', 'maxRepeat': 3}),
    ('haml+text+reverse', {'syntax': 'haml', 'text': ['x y', '$#'], 'options': {'output.reverseAttributes': True, 'output.attributeQuotes': 'single'}}),
    ('xhtml+nohref+upper', {'syntax': 'xhtml', 'maxRepeat': 1, 'options': {'markup.href': False, 'output.tagCase': 'upper', 'output.attributeCase': 'upper',
                                                                          'output.format': False}}),
    ('context-without-attributes+bem', {'context': {'name': 'div'}, 'options': {'bem.enabled': True, 'comment.enabled': True}}),
    ('vue+formatLeaf', {'syntax': 'vue', 'options': {'output.formatLeafNode': True, 'output.reverseAttributes': True,
                                                     'output.compactBoolean': True, 'output.selfClosingStyle': 'xhtml'}}),
]
CSS_CFGS = [
    ('css', {'type': 'stylesheet'}),
    ('scss', {'type': 'stylesheet', 'syntax': 'scss'}),
    ('stylus', {'type': 'stylesheet', 'syntax': 'stylus'}),
    ('value-context', {'type': 'stylesheet', 'context': {'name': 'padding'}}),
    ('section-scope', {'type': 'stylesheet', 'context': {'name': '@@section'}}),
    ('property-scope', {'type': 'stylesheet', 'context': {'name': '@@property'}}),
    ('json', {'type': 'stylesheet', 'options': {'stylesheet.json': True}}),
    ('no-skip', {'type': 'stylesheet', 'options': {'stylesheet.skipUnmatched': False, 'stylesheet.shortHex': False}}),
    # user snippets of unusual but legal shapes: empty alternatives, a function call and several tokens as first alternative, a raw snippet
    ('user-snippets', {'type': 'stylesheet', 'snippets': {'p': 'padding:a||b', 'm': 'margin:|1', 'f': 'float:left|', 't': 'transform:rotate(1deg, 2) x|none',
                                                         'a': 'a {\n${1}\n}', 'e': 'empty-cells'}}),
]


BIGREP = re.compile(r'\*\d{3,}')


QUICK = [False]


def _chunk(items):
    import copy
    import emmet
    from emmet.scanner import ScannerException
    from emmet.token_scanner import TokenScannerException
    out = []
    caches = {}
    for tid, s, lang in items:
        src = _sub(s)
        calls = []
        cfgs = MARKUP_CFGS if lang == 'markup' else CSS_CFGS
        if QUICK[0] and len(src) > 2:
            # quick tier: longer strings run under every second configuration (which half is chosen by a hash of the string)
            h = zlib.crc32(src.encode())
            cfgs = [c for i, c in enumerate(cfgs) if (i + h) % 2 == 0]
        for cname, cfg in cfgs:
            c = copy.deepcopy(cfg)
            if lang == 'markup' and BIGREP.search(src):
                c.setdefault('maxRepeat', 25)       # "*1111" legitimately takes long; the budget keeps the run short
            if lang == 'css' and tid % 40:
                # converting the 230 built-in snippets takes ~8 ms per call: give most calls a cache (one per configuration)
                c['cache'] = caches.setdefault(cname, {})
            rec = {'cfg': cname, 'pos': -1}
            try:
                r = common.guarded(lambda: emmet.expand(src, copy.deepcopy(c) if 'cache' not in c else c), 10)
                rec['kind'] = 'str' if isinstance(r, str) else 'not-a-string'
            except ScannerException as ex:
                rec['kind'] = 'scanner-error'
                rec['pos'] = -1 if ex.pos is None else int(ex.pos)
            except TokenScannerException as ex:
                rec['kind'] = 'token-error'
                rec['pos'] = -1 if ex.pos is None else int(ex.pos)
            except TimeoutError:
                rec['kind'] = 'timeout'
            except Exception as ex:
                rec['kind'] = 'internal'
                rec['exception'] = type(ex).__name__
                rec['site'] = common.innermost_emmet_frame(ex)
                rec['message'] = str(ex)[:120]
            calls.append(rec)
        out.append({'tid': tid, 'src': src, 'lang': lang, 'len': len(src), 'calls': calls})
    return out


def _corpus():
    """abbreviation literals of the repository's tests (first argument of expand()-like calls), with one-character mutations"""
    lits = {'markup': set(), 'css': set()}
    tdir = os.path.join(common.REPO, 'tests')
    if not os.path.isdir(tdir):
        tdir = '/repo/tests'
    for root, _, files in os.walk(tdir):
        for f in files:
            if not f.endswith('.py'):
                continue
            try:
                tree = ast.parse(open(os.path.join(root, f)).read())
            except SyntaxError:
                continue
            lang = 'css' if ('css' in f or 'stylesheet' in f) else 'markup'
            for node in ast.walk(tree):
                if isinstance(node, ast.Call) and node.args and isinstance(node.args[0], ast.Constant) and isinstance(node.args[0].value, str):
                    fn = node.func
                    nm = fn.id if isinstance(fn, ast.Name) else getattr(fn, 'attr', '')
                    if nm in ('expand', 'parse', 'tokenize', 'stringify', 'field', 'parser', 'extract'):
                        v = node.args[0].value
                        if 0 < len(v) <= 60 and '\n' not in v:
                            lits[lang].add(v)
    return lits


def _mutations(s, salt):
    repl = ['*', '$', '{', '}', '[', ']', '(', ')', '#', '.', '\\', '"', "'", ' ', '-', ':', '!', '@', '>', '^', '+', '1', '/', '=']
    out = set()
    n = len(s)
    for i in range(n):
        out.add(s[:i] + s[i + 1:])
        out.add(s[:i] + s[i] + s[i:])
        out.add(s[:i] + repl[(i + salt) % len(repl)] + s[i + 1:])
        out.add(s[:i] + repl[(i * 7 + salt + 3) % len(repl)] + s[i:])
    out.discard(s)
    return out


BEM_FRAGS = {".b", ".-e", "._m", ".b__x", ".--e2", ".a-b", ".-e_m", ".b_m1_m2", ".__m", ".c.-e", "#i"}


def _bem_chunk(vecs):
    import emmet
    from emmet.scanner import ScannerException
    from emmet.token_scanner import TokenScannerException
    out = []
    for v in vecs:
        try:
            with common.Alarm(10):
                got = emmet.expand(v['s'], {'options': {'bem.enabled': True, 'output.format': False}})
        except (ScannerException, TokenScannerException):
            out.append(('parse-error', v['s'], None))
            continue
        except Exception as ex:
            out.append(('internal', v['s'], [type(ex).__name__, common.innermost_emmet_frame(ex)]))
            continue
        if got != v['bem']:
            out.append(('differs', v['s'], [v['bem'], got]))
    return out


def _bem_model(out, quick):
    """the BEM addon as a specification (AbbrBem.tla on the transcribed pipeline): every abbreviation of the documented grammar over
    BEM class fragments is expanded with bem.enabled; an internal error - or a parse error, the abbreviations are valid - is a
    violation, a difference to the model's markup a diagnostic (no listed property fixes what BEM rewriting must produce)"""
    consts = dict(NameFr={"x", ""}, ModFr=BEM_FRAGS, RepFr={"*2"}, OpFr={">", "+", "^"}, MaxGroups=0, MaxMods=2, MaxFrag=4 if quick else 5,
                  ScChild=False, SelfClosingStyle='html', TreeOnly=False, RepeatLimit=1000000)
    r = common.run_tlc('AbbrGrammarBem', constants=consts, timeout=3000, heap='12g')
    if r.violated:
        out.add_tlc('bem-model', r)
        out.violation('spec-invariant %s violated in the model' % r.violated, {'instance': 'bem-model', 'tlc': r.error[:2000]})
        return
    vecs = {}
    for v in r.vectors():
        vecs.setdefault(v['s'], v)
    r.tagged = {}
    res = common.pool_map(_bem_chunk, list(vecs.values()), chunk=500)
    diff = [x for x in res if x[0] == 'differs']
    for kind, s, info in res:
        if kind == 'internal':
            out.violation('outcome: internal-error', {'input': s, 'language': 'markup', 'configuration': 'bem (grammar)', 'kind': 'internal', 'pos': -1,
                                                      'exception': info[0], 'site': info[1], 'instance': 'bem-model'})
        elif kind == 'parse-error':
            out.violation('outcome: parse error on an abbreviation of the documented grammar', {'input': s, 'configuration': 'bem (grammar)', 'instance': 'bem-model'})
    out.add_tlc('bem-model', r, abbreviations=len(vecs),
                model_differs_from_code={'count': len(diff), 'examples': [[s, i] for _, s, i in sorted(diff, key=lambda x: len(x[1]))[:4]]})
    out.evaluations += len(vecs)
    if diff:
        out.diag('model-vs-code: bem markup', len(diff))


def run(out):
    quick = out.tier == 'quick'
    QUICK[0] = quick
    _bem_model(out, quick)
    out.rule = ('one trace per input string (all strings up to the bound over a 26-symbol markup and a 26-symbol stylesheet alphabet, '
                'simulated longer structural strings, all sequences of syntactic fragments up to the bound (Fragments.tla), one-character mutations of the abbreviation literals of the repository tests), '
                'one event per configuration; non-trivial = the string is not rejected by the parser under the first configuration; '
                'distinct by (string, language)')
    out.assumptions = ['lorem* is random: only the outcome class is observed', 'each call is limited to 10 s wall clock']
    insts = [
        ('markup-exhaustive', 'markup', dict(constants={'Alphabet': MARKUP_ALPHA, 'MaxLen': 3 if quick else 4})),
        ('markup-structural', 'markup', dict(constants={'Alphabet': STRUCT_M, 'MaxLen': 10 if quick else 14},
                                             simulate=3 if quick else 45, depth=10 if quick else 14, seed=out.seed)),
        # every combination of the numbering / repeater symbols (the modifiers after $ and @ only combine at length 4 and more)
        ('markup-numbering', 'markup', dict(constants={'Alphabet': {"$", "@", "^", "-", "1", "*", "a"}, 'MaxLen': 4 if quick else 6})),
        # every sequence of syntactic fragments (Fragments.tla): shapes that need six to ten characters
        ('markup-fragments', 'markup', dict(module='Fragments', constants={'Frags': FRAG_M | {"c", "lorem", "{${1}}", "!", "*3"}, 'MaxFrag': 3 if quick else 4})),
        ('css-fragments', 'css', dict(module='Fragments', constants={'Frags': FRAG_C, 'MaxFrag': 3 if quick else 4})),
        ('css-exhaustive', 'css', dict(constants={'Alphabet': CSS_ALPHA, 'MaxLen': 3 if quick else 4})),
        ('css-structural', 'css', dict(constants={'Alphabet': STRUCT_C, 'MaxLen': 10 if quick else 14},
                                       simulate=3 if quick else 45, depth=10 if quick else 14, seed=out.seed + 1)),
    ]
    work = []          # (name, lang, strings)
    from concurrent.futures import ThreadPoolExecutor

    def gen(inst):
        name, lang, kw = inst
        kw = dict(kw)
        return common.run_tlc(kw.pop('module', 'Strings'), timeout=3000, heap='6g', workers=6, **kw)
    with ThreadPoolExecutor(4) as ex:           # the generators are independent TLC runs
        results = list(ex.map(gen, insts))
    for (name, lang, kw), r in zip(insts, results):
        strings = sorted(set(v['s'] for v in r.vectors()))
        r.tagged = {}
        if r.mode == 'simulate':
            strings = common.sample(strings, 6000 if quick else 150000, out.seed, key=str)
        if r.mode == 'bfs':
            out.exhaustive = r.exhaustive if out.exhaustive is None else (out.exhaustive and r.exhaustive)
        out.add_tlc(name + '-generator', r, strings=len(strings))
        work.append((name, lang, strings))
    lits = _corpus()
    for lang in ('markup', 'css'):
        muts = set()
        for s in sorted(lits[lang]):
            ms = sorted(_mutations(s, zlib.crc32(s.encode()) + out.seed))
            if quick:
                ms = ms[::3]
            muts.update(ms)
            muts.add(s)
        extra = ['lorem', 'lorem-', 'lorem10', 'lorem*3', 'p>lorem5', 'lipsum-2', 'loremru3', 'ul>lorem4*3', 'animic', 'lg(', '#fc0.5', 'xsl:variable']
        muts.update(extra)
        work.append(('test-corpus-mutations-' + lang, lang, sorted(muts)))
        out.parts.append({'instance': 'test-corpus-' + lang, 'literals': len(lits[lang]), 'mutations': len(muts)})
    # every key of the built-in snippet tables is an abbreviation a user types: it expands (the definitions are parsed only when used)
    common.import_emmet()
    from emmet.snippets.html import snippets as html_raw
    from emmet.snippets.xsl import snippets as xsl_raw
    from emmet.snippets.pug import snippets as pug_raw
    from emmet.snippets.css import snippets as css_raw
    mk = sorted(set(k for raw in (html_raw, xsl_raw, pug_raw) for ks in raw for k in ks.split('|')))
    ck = sorted(set(k for ks in css_raw for k in ks.split('|')))
    work.append(('builtin-snippet-keys-markup', 'markup', mk + [k + '>' + k for k in mk[::7]]))
    work.append(('builtin-snippet-keys-css', 'css', ck))
    out.parts.append({'instance': 'builtin-snippet-keys', 'markup_keys': len(mk), 'stylesheet_keys': len(ck)})
    # deep structures (the grammar has no depth limit): element chains, groups and groups of chains, below and above what the
    # recursive implementation can take (known finding F45)
    deep = []
    for n in (20, 100, 230, 270, 400):
        deep.append('>'.join(['a'] * n))
    for n in (100, 450, 520):
        deep.append('(' * n + 'a' + ')' * n)
    deep.append('(a>' * 130 + 'a' + ')' * 130)
    deep.append('p{' + '{' * 400 + '}' * 400 + '}')
    deep.append('a' + '[b]' * 300 + '.c' * 300)
    deep.append('a>b' + '^' * 500 + 'c')
    work.append(('deep-structures', 'markup', deep))
    tid = 0
    alltraces = []
    for name, lang, strings in work:
        items = []
        for s in strings:
            tid += 1
            items.append((tid, s, lang))
        traces = common.pool_map(_chunk, items, chunk=1000)
        kinds = {}
        for t in traces:
            t['inst'] = name
            for c in t['calls']:
                kinds[c['kind']] = kinds.get(c['kind'], 0) + 1
        out.parts.append({'instance': name + '-recorded', 'traces': len(traces), 'calls': sum(len(t['calls']) for t in traces), 'outcome_classes': kinds})
        alltraces.extend(traces)
        sm = sorted(traces, key=lambda t: zlib.crc32(repr((t['src'], lang)).encode()))
        for t in sm[:1]:
            out.sample({'input': t['src'], 'language': lang, 'outcomes': [[c['cfg'], c['kind'], c['pos']] for c in t['calls']][:5]})
    # one validation run over all recorded traces (batched by validate_traces)
    slim = [{'tid': t['tid'], 'len': t['len'], 'calls': [{'kind': c['kind'], 'pos': c['pos']} for c in t['calls']]} for t in alltraces]
    verdicts, r2 = common.validate_traces('Trace_Outcome', slim, heap='5g', batch_events=150000, parallel=4)
    ncalls = sum(len(t['calls']) for t in alltraces)
    out.add_tlc('trace-validation', r2, traces=len(alltraces), calls=ncalls)
    out.traces += len(alltraces)
    out.evaluations += ncalls
    by = {t['tid']: t for t in alltraces}
    for t in alltraces:
        if t['calls'] and t['calls'][0]['kind'] == 'str':
            out.distinct.add((t['src'], t['lang']))
    for k, v in verdicts.items():
        if v[0] == 'REJECT':
            t = by[k]
            c = t['calls'][v[1] - 1]
            src = t['src']
            depth = max(src.count('>'), src.count('('))          # nesting the input asks for (every '>' / '(' opens a level unless a '^' / ')' leaves one)
            out.violation('outcome: ' + v[2], {'input': src if len(src) <= 300 else src[:120] + ' ... (%d characters)' % len(src),
                                               'language': t['lang'], 'configuration': c['cfg'], 'kind': c['kind'],
                                               'pos': c['pos'], 'exception': c.get('exception'), 'site': list(c['site']) if c.get('site') else None,
                                               'message': c.get('message'), 'instance': t['inst'],
                                               'flags': {'nesting_over_200': depth > 200}})


def replay(case):
    c = case['case']
    lang = c['language']
    r = _chunk([(1, c['input'], lang)])[0]
    return repr([x for x in r['calls'] if x['cfg'] == c['configuration']])
