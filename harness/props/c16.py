"""C16 - scanners and matchers are total and report only well-formed ranges.

Strings.tla enumerates every string over the HTML and the CSS punctuation alphabets up to the bound (and simulates longer
ones), Fragments.tla every sequence of document fragments up to its bound; one-character mutations of valid documents are added.  For every string and every position from -1 to len+1 the real
html/css scan, match, balanced_outward, balanced_inward, attributes and split_value are called; every result (or raised
exception) is recorded and validated by Trace_ScanMonitor.tla.
"""
import zlib

import common

HTML_ALPHA = {"<", ">", "/", "=", "DQ", "'", "BS", "!", "-", "?", "[", "]", "a", " ", "NL"}
CSS_ALPHA = {"{", "}", ":", ";", "(", ")", "DQ", "'", "BS", "/", "*", "a", " ", "CR"}
# document fragments for Fragments.tla: tags of ordinary, void and special elements (also stray closing tags), comment / CDATA
# delimiters, attribute shapes; rule / declaration / comment / string pieces
FRAG_H = {"<a>", "</a>", "<br>", "</br>", "<p k=l m>", "<img a=b/>", "<!-- ", "-->", "<script>", "</script>", "t ", "<", ">", "<b c=DQd>eDQ>", "</b>",
          "<![CDATA[", "]]>", "NL", "<script type>", "<style media=", "/>", "<script type=DQ>", "<style title=DQa</style>DQ>", "</style >", "</scriptNL>", "</SCRIPT>"}
FRAG_S = {"a{", "}", "b:c;", "d:e", "/*", "*/", "DQ", "'", "BS", "CR", "(", ")", ";", "@m (x:y){", " ", "NL"}
HTML_DOCS = ['<a><b c="d>e"></b></a>', '<p k=l m><br><img a=b></p>', '<a x=\'>\' {y}><!-- <a> --></a>', '<style>a>b{}</style><p t={a>b}/>',
             '<b *ng="v" #ref><![CDATA[<b>]]></b>', '<script>if(a<b)"</p>"</script><?pi <p> ?>',
             '<style>a{}</style><style>b{}</style>', '<script src="a"></script><p>t</p><script>x</script>',
             '<ul><li>one</li><li><a href="#">two</a></li></ul>\n<p><img src="a.png"> text</p>',
             '<div><p><b>x</b></p></div><br><section><input a=b><em>y</em></section>',
             # tags written in mixed letter case: whatever is reported as a closing tag carries the reported name
             '<p><script>var a;</SCRIPT><i>x</i></p>', '<STYLE>a{}</style><Div><B>t</b></DIV>']
CSS_DOCS = ['a{color:red;}', 'a:hover{--v : "x;y" ;}', '@media (min-width: 10px){b[x="{"]{$v:url(a:b);}}', 'a::before{margin:1px  solid;/* {;:} */}',
            '.c > d{color:calc(1px + (2px));}\n  a{b:c}', 'a{b:c;d:e}', 'a { /** x } **/ b: c; }', 'a { b { c { d: e; } f: g; } h: i; }',
            'a{m:0;b{c{x:1}y:2}z:3}']


def _pair(t):
    return [list(t.open), list(t.close) if t.close else [-1, -1]]


TWICE = [False]


def _rec(fn, pos, f):
    base = {'fn': fn, 'pos': pos, 'exc': False, 'r': [], 'names': [], 'kinds': [], 'dl': [], 'm': []}
    try:
        with common.Alarm(10):
            f(base)
    except Exception as ex:
        base['exc'] = True
        base['exception'] = type(ex).__name__
        base['site'] = common.innermost_emmet_frame(ex)
    # a range is a pair of integers: anything else in a result is judged like a raised exception (the monitor cannot read it)
    if not base['exc'] and not all(isinstance(r, list) and len(r) == 2 and all(isinstance(x, int) and not isinstance(x, bool) for x in r) for r in base['r']):
        base['exception'] = 'result is not a list of integer pairs: %r' % (base['r'][:4],)
        base['exc'] = True
        base['r'] = []
        base['names'] = []
        base['kinds'] = []
        base['dl'] = []
        base['m'] = []
    return base


QUICK = [True]


def _positions(src):
    n = len(src)
    if n <= 24 or not QUICK[0]:
        return range(-1, n + 2)
    h = zlib.crc32(src.encode())
    return [p for p in range(-1, n + 2) if p <= 1 or p >= n - 1 or (p + h) % 3 == 0]


def _chunk(items):
    from emmet import html_matcher as hm
    from emmet import css_matcher as cm
    from emmet.html_matcher.scan import scan as hscan
    from emmet.css_matcher.scan import scan as cscan
    from emmet.css_matcher.parse import split_value
    out = []
    for tid, src, lang in items:
        calls = []
        TWICE[0] = zlib.crc32(src.encode()) % 3 == 0          # every third source: each answer is asked for twice (see _rec callers)
        if lang == 'html':
            def f(b):
                def cb(n, t, s, e):
                    b['r'].append([s, e]); b['names'].append(n); b['kinds'].append(t)
                hscan(src, cb, hm.ScannerOptions().special)
            calls.append(_rec('html.scan', 0, f))

            def f(b):
                if TWICE[0]:
                    common.scramble(hm.attributes(src))          # the first answer is changed in place by its owner, the second one is judged
                for a in hm.attributes(src):
                    b['r'].append([a.name_start, a.name_end])
                    if a.value is not None:
                        b['r'].append([a.value_start, a.value_end])
            calls.append(_rec('html.attributes', 0, f))
            for pos in _positions(src):
                for xml in (False, True):
                    opt = {'xml': xml}
                    mres = []

                    def f(b):
                        if TWICE[0]:
                            common.scramble(hm.match(src, pos, opt))
                        m = hm.match(src, pos, opt)
                        if m is not None:
                            b['r'] += _pair(m)
                            for a in m.attributes:
                                if not (0 <= a.name_start <= a.name_end <= len(src)):
                                    b['r'].append([a.name_start, a.name_end])
                                if a.value is not None and not (0 <= a.value_start <= a.value_end <= len(src)):
                                    b['r'].append([a.value_start, a.value_end])
                        mres[:] = b['r'][:2]
                    calls.append(_rec('html.match', pos, f))

                    def f(b):
                        if TWICE[0]:
                            common.scramble(hm.balanced_outward(src, pos, opt))
                        for t in hm.balanced_outward(src, pos, opt):
                            b['r'] += _pair(t)
                        b['m'] = list(mres)
                    calls.append(_rec('html.outward', pos, f))

                    def f(b):
                        if TWICE[0]:
                            common.scramble(hm.balanced_inward(src, pos, opt))
                        for t in hm.balanced_inward(src, pos, opt):
                            b['r'] += _pair(t)
                    calls.append(_rec('html.inward', pos, f))
        else:
            def f(b):
                def cb(t, s, e, d):
                    b['r'].append([s, e]); b['dl'].append(d)
                cscan(src, cb)
            calls.append(_rec('css.scan', 0, f))

            def f(b):
                if TWICE[0]:
                    common.scramble(split_value(src))
                b['r'] += [list(r) for r in split_value(src)]
            calls.append(_rec('css.split_value', 0, f))
            for pos in _positions(src):
                def f(b):
                    if TWICE[0]:
                        common.scramble(cm.match(src, pos))
                    m = cm.match(src, pos)
                    if m is not None:
                        b['r'] += [[m.start, m.end], [m.body_start, m.body_end]]
                calls.append(_rec('css.match', pos, f))

                def f(b):
                    if TWICE[0]:
                        common.scramble(cm.balanced_outward(src, pos))
                    b['r'] += [list(r) for r in cm.balanced_outward(src, pos)]
                calls.append(_rec('css.outward', pos, f))

                def f(b):
                    if TWICE[0]:
                        common.scramble(cm.balanced_inward(src, pos))
                    b['r'] += [list(r) for r in cm.balanced_inward(src, pos)]
                calls.append(_rec('css.inward', pos, f))
        out.append({'tid': tid, 'src': src, 'lang': lang, 'calls': calls})
    return out


def _mutations(doc, salt, alpha):
    chars = [c for c in ('<>/="\'\\!-?[] a' if alpha == 'html' else '{}:;()"\'\\/* a')]
    outs = set()
    for i in range(len(doc)):
        outs.add(doc[:i] + doc[i + 1:])
        outs.add(doc[:i] + chars[(i + salt) % len(chars)] + doc[i + 1:])
        outs.add(doc[:i] + chars[(i * 5 + salt + 1) % len(chars)] + doc[i:])
    return outs


def _prefixes(doc):
    return {doc[:i] for i in range(len(doc) + 1)}


def run(out):
    quick = out.tier == 'quick'
    QUICK[0] = quick
    out.rule = ('one trace per source string (every string over the 14-symbol HTML / 13-symbol CSS punctuation alphabet up to the bound, '
                'simulated longer ones, one-character mutations and all prefixes of valid documents), one event per call; positions -1 .. '
                'len+1 (every third one for sources longer than 24 characters in the quick tier); HTML in both modes; non-trivial = the scanner reported at least one token; distinct by string')
    out.assumptions = ['TLC, Json/IOUtils trusted']
    insts = [('html-exhaustive', 'html', dict(constants={'Alphabet': HTML_ALPHA, 'MaxLen': 3 if quick else 4})),
             ('html-simulated', 'html', dict(constants={'Alphabet': HTML_ALPHA, 'MaxLen': 12}, simulate=3 if quick else 40, depth=12, seed=out.seed)),
             ('css-exhaustive', 'css', dict(constants={'Alphabet': CSS_ALPHA, 'MaxLen': 3 if quick else 4})),
             ('css-simulated', 'css', dict(constants={'Alphabet': CSS_ALPHA, 'MaxLen': 12}, simulate=3 if quick else 40, depth=12, seed=out.seed + 1))]
    insts += [('html-fragments', 'html', dict(module='Fragments', constants={'Frags': FRAG_H, 'MaxFrag': 3 if quick else 4})),
              ('css-fragments', 'css', dict(module='Fragments', constants={'Frags': FRAG_S, 'MaxFrag': 3 if quick else 4}))]
    if not quick:
        # every sequence of up to three fragments is kept whole; of the 450 000 sequences of four a sample is taken below
        insts.append(('html-fragments-3', 'html', dict(module='Fragments', constants={'Frags': FRAG_H, 'MaxFrag': 3})))
    work = []
    from concurrent.futures import ThreadPoolExecutor

    def gen(inst):
        kw = dict(inst[2])
        return common.run_tlc(kw.pop('module', 'Strings'), timeout=3000, heap='6g', workers=6, **kw)
    with ThreadPoolExecutor(4) as ex:           # the generators are independent TLC runs
        results = list(ex.map(gen, insts))
    for (name, lang, kw), r in zip(insts, results):
        strings = sorted(set(v['s'] for v in r.vectors()))
        r.tagged = {}
        if r.mode == 'simulate':
            strings = common.sample(strings, 1500 if quick else 20000, out.seed, key=str)
        elif quick and name == 'html-fragments':
            # quick tier: every generated source of at most 12 characters (the sequences of one fragment and of two short ones), a deterministic sample of the longer ones
            short = [x for x in strings if len(x) <= 12]
            strings = sorted(set(short) | set(common.sample([x for x in strings if len(x) > 12], 700, out.seed, key=str)))
        if r.mode == 'bfs':
            out.exhaustive = r.exhaustive if out.exhaustive is None else (out.exhaustive and r.exhaustive)
        out.add_tlc(name + '-generator', r, strings=len(strings))
        work.append((name, lang, strings))
    for lang, docs in (('html', HTML_DOCS), ('css', CSS_DOCS)):
        ms = set()
        for d in docs:
            m = sorted(_mutations(d, zlib.crc32(d.encode()) + out.seed, lang))
            ms.update(m[::4] if quick else m)
            ms.update(_prefixes(d))
        work.append(('document-mutations-' + lang, lang, sorted(ms)))
    _model_comparison(out, quick)
    tid = 0
    SLICE = 12000          # sources recorded and validated at a time: the recorded calls of all 390 000 four-fragment sources at once are 50 GB
    total = None
    ntraces = ncalls = 0
    for name, lang, strings in work:
        if not quick and len(strings) > 150000:
            # thorough tier, sequences of four fragments: a deterministic sample of 100 000 (those of up to three are the instance html-fragments-3)
            strings = sorted(common.sample(strings, 100000, out.seed, key=str))
        items = []
        for s in strings:
            tid += 1
            items.append((tid, s, lang))
        part = {'instance': name + '-recorded', 'traces': 0, 'calls': 0}
        out.parts.append(part)
        first = None
        for a in range(0, len(items), SLICE):
            traces = common.pool_map(_chunk, items[a:a + SLICE], chunk=400)
            part['traces'] += len(traces)
            part['calls'] += sum(len(t['calls']) for t in traces)
            for t in traces:
                t['lang'] = lang
                if first is None or zlib.crc32(t['src'].encode()) < zlib.crc32(first['src'].encode()):
                    first = {'src': t['src'], 'calls': t['calls'][:4]}
            # the recorded traces of the slice are validated (batched by validate_traces) and dropped
            slim = [{'tid': t['tid'], 'src': t['src'], 'calls': [{k: c[k] for k in ('fn', 'pos', 'exc', 'r', 'names', 'kinds', 'dl', 'm')} for c in t['calls']]}
                    for t in traces]
            verdicts, r2 = common.validate_traces('Trace_ScanMonitor', slim, heap='5g', batch_events=110000, parallel=4)
            del slim
            if total is None:
                total = r2
            else:
                total.generated += r2.generated
                total.distinct += r2.distinct
                total.wall += r2.wall
                total.depth = max(total.depth, r2.depth)
            ntraces += len(traces)
            ncalls += sum(len(t['calls']) for t in traces)
            by = {t['tid']: t for t in traces}
            for t in traces:
                if t['calls'][0]['r']:
                    out.distinct.add((t['src'], t['lang']))
            for k, v in verdicts.items():
                if v[0] == 'REJECT':
                    t = by[k]
                    c = t['calls'][v[1] - 1]
                    out.violation('%s: %s' % (c['fn'], v[2]), {'source': t['src'], 'fn': c['fn'], 'pos': c['pos'], 'ranges': c['r'],
                                                              'delimiters': c['dl'], 'names': c['names'], 'exception': c.get('exception'),
                                                              'site': list(c['site']) if c.get('site') else None})
            del traces, by
        if first is not None:
            out.sample({'source': first['src'], 'calls': [[c['fn'], c['pos'], c['r']] for c in first['calls']]})
    out.add_tlc('trace-validation', total, traces=ntraces, calls=ncalls)
    out.traces += ntraces
    out.evaluations += ncalls


# ---------------------------------------------------------------------------------------------------------------------
# model of the HTML matcher (HtmlScan.tla / HtmlScanMC.tla): TLC checks the C16 invariants on the transcription for every
# string of the instance and prints events, attributes and the three answers at every position; they are compared with the code

SCAN_CHARS = {"<", ">", "/", "=", "DQ", "'", "BS", "!", "-", "?", "[", "]", "a", " ", "NL", "{", "}", "*", "#", "."}
SCAN_FRAGS = {"<a", "<br", "<b>", "</b>", "</a>", ">", "/>", " x=", "DQ", "'", "y", "<!--", "-->", "<script", "</script>", "<style>", "</style>", "</style >", "</STYLE>",
              " ", " type=", "text/x", "<![CDATA[", "]]>", "<?", "?>", "{", "}", "BS", "/", "<", "=", "NL", "(", ")", "[", "]", "*n", "#r", "a:b-c.d_"}


def _tag(t):
    return None if t is None else [t.name, t.open[0], t.open[1]] + (list(t.close) if t.close else [-1, -1])


def _mtag(t):
    return [t['n'], t['os'], t['oe'], t['cs'], t['ce']]


def _model_chunk(vecs):
    from emmet import html_matcher as hm
    from emmet.html_matcher.scan import scan as hscan
    diff = []
    for v in vecs:
        src = v['s']
        try:
            evs = []
            hscan(src, lambda n, t, s, e: evs.append([n, t, s, e]) or None, hm.ScannerOptions().special)
            if evs != [[e['n'], e['ty'], e['s'], e['e']] for e in v['evs']]:
                diff.append(('scan events', src))
                continue
            at = [[a.name, a.name_start, a.name_end, a.value if a.value is not None else '<none>',
                   a.value_start if a.value is not None else -1, a.value_end if a.value is not None else -1] for a in hm.attributes(src)]
            if at != [[a['n'], a['ns'], a['ne'], a['v'], a['vs'], a['ve']] for a in v['attrs']]:
                diff.append(('attributes', src))
                continue
            for k, row in enumerate(v['at']):
                pos = k - 1
                for key, xml in (('h', False), ('x', True)):
                    opt = {'xml': xml}
                    exp = row[key]
                    m = _tag(hm.match(src, pos, opt))
                    if (m is None) != (not exp['m']) or (m is not None and m != _mtag(exp['m'][0])):
                        diff.append(('match', src))
                    if [_tag(t) for t in hm.balanced_outward(src, pos, opt)] != [_mtag(t) for t in exp['o']]:
                        diff.append(('balanced_outward', src))
                    if [_tag(t) for t in hm.balanced_inward(src, pos, opt)] != [_mtag(t) for t in exp['i']]:
                        diff.append(('balanced_inward', src))
        except Exception as ex:
            diff.append(('code raised %s' % type(ex).__name__, src))
    return diff


CSS_CHARS = {"{", "}", ":", ";", "(", ")", "DQ", "'", "BS", "/", "*", "a", " ", "CR", "-", ",", "+"}
CSS_FRAGS = {"a{", "}", "b:c;", "d:e", "/*", "*/", "DQ", "'", "BS", "CR", "(", ")", ";", "@m (x:y){", " ", "NL", ":", "::", "f", "{", "- ", "-", ",", "+", "u(", "&:h{", "b: ;"}


def _css_model_chunk(vecs):
    from emmet import css_matcher as cm
    from emmet.css_matcher.scan import scan as cscan
    from emmet.css_matcher.parse import split_value
    diff = []
    for v in vecs:
        src = v['s']
        try:
            evs = []
            cscan(src, lambda t, s, e, d: evs.append([t, s, e, d]) or None)
            if evs != [[e['t'], e['s'], e['e'], e['d']] for e in v['evs']]:
                diff.append(('css scan events', src))
                continue
            if [list(r) for r in split_value(src)] != v['split']:
                diff.append(('css split_value', src))
            for k, row in enumerate(v['at']):
                pos = k - 1
                m = cm.match(src, pos)
                got = None if m is None else [m.type, m.start, m.end, m.body_start, m.body_end]
                exp = None if not row['m'] else [row['m'][0][f] for f in ('t', 's', 'e', 'bs', 'be')]
                if got != exp:
                    diff.append(('css match', src))
                if [list(r) for r in cm.balanced_outward(src, pos)] != row['o']:
                    diff.append(('css balanced_outward', src))
                if [list(r) for r in cm.balanced_inward(src, pos)] != row['i']:
                    diff.append(('css balanced_inward', src))
        except Exception as ex:
            diff.append(('code raised %s' % type(ex).__name__, src))
    return diff


def _model_comparison(out, quick):
    insts = [('css-model-characters', 'CssScanMC', dict(constants={'Frags': CSS_CHARS, 'MaxFrag': 3 if quick else 4})),
             ('css-model-fragments', 'CssScanMC', dict(constants={'Frags': CSS_FRAGS, 'MaxFrag': 2 if quick else 3})),
             ('css-model-fragments-simulated', 'CssScanMC', dict(constants={'Frags': CSS_FRAGS, 'MaxFrag': 9},
                                                                simulate=4 if quick else 60, depth=10, seed=out.seed + 6))]
    insts += [('html-model-characters', 'HtmlScanMC', dict(constants={'Frags': SCAN_CHARS, 'MaxFrag': 3 if quick else 4})),
             ('html-model-fragments', 'HtmlScanMC', dict(constants={'Frags': SCAN_FRAGS, 'MaxFrag': 2 if quick else 3})),
             ('html-model-fragments-simulated', 'HtmlScanMC', dict(constants={'Frags': SCAN_FRAGS, 'MaxFrag': 9},
                                                                  simulate=4 if quick else 60, depth=10, seed=out.seed + 5))]
    for name, module, kw in insts:
        r = common.run_tlc(module, timeout=3000, heap='12g', **kw)
        if r.violated:
            out.add_tlc(name, r)
            out.violation('spec-invariant %s violated in the matcher model' % r.violated, {'instance': name, 'tlc': r.error[:2000]})
            continue
        vecs = {}
        for v in r.vectors():
            vecs.setdefault(v['s'], v)
        r.tagged = {}
        vecs = list(vecs.values())
        if r.mode == 'simulate':
            vecs = common.sample(vecs, 2500 if quick else 60000, out.seed, key=lambda v: v['s'])
        elif out.exhaustive is not None:
            out.exhaustive = out.exhaustive and r.exhaustive
        diff = common.pool_map(_css_model_chunk if module == 'CssScanMC' else _model_chunk, vecs, chunk=500)
        fam = {}
        for what, src in diff:
            fam.setdefault(what, set()).add(src)
        out.add_tlc(name, r, strings=len(vecs), with_events=sum(1 for v in vecs if v['evs']),
                    model_differs_from_code={k: {'count': len(v), 'examples': sorted(v, key=len)[:5]} for k, v in fam.items()})
        out.evaluations += sum((len(v['s']) + 3) * 6 + 2 for v in vecs)
        for k, v in fam.items():
            out.diag('model-vs-code: ' + k, len(v))


def replay(case):
    c = case['case']
    lang = 'html' if c['fn'].startswith('html') else 'css'
    t = _chunk([(1, c['source'], lang)])[0]
    return repr([x for x in t['calls'] if x['fn'] == c['fn'] and x['pos'] == c['pos']])
