"""C20 - configuration layers override each other in the documented order.

ConfigLayers.tla enumerates, for two keys, every assignment of "which of the six layers mention the key" (known and
unknown syntax), TLC checks that six update() steps compute the value of the most specific mentioning layer, and prints
one vector per assignment.  The harness *realises* every vector for each of the three sections (options, snippets,
variables): built-in layers are realised by choosing a concrete key and a (type, syntax) pair whose built-in tables do
or do not define it, caller-supplied layers by marker values.  It then compares Config(user, global) with the
vector's winner, observes the winner through expand() where the key has a visible effect, and deep-compares built-in
tables and caller dictionaries before/after.
"""
import copy
import zlib

import common

SECTIONS = ('options', 'snippets', 'variables')
KNOWN = [('markup', s) for s in ['html', 'xml', 'xsl', 'jsx', 'pug', 'slim', 'haml', 'vue', 'svelte', 'xhtml']] + \
        [('stylesheet', s) for s in ['css', 'sass', 'scss', 'less', 'sss', 'stylus']] + \
        [('stylesheet', 'jsx'), ('markup', 'stylus')]          # a syntax name is a layer of its own under either type
UNKNOWN = [('markup', 'foo'), ('stylesheet', 'bar'), ('markup', 'markdown'), ('stylesheet', 'foo'), ('markup', 'bar')]
EXTRA_KEYS = {'options': ['x.custom1', 'x.custom2'], 'snippets': ['zzq', 'zzr'], 'variables': ['myvar', 'myvar2']}


def _pool(cfgmod, section, typ, syn):
    """concrete keys available for (section, type, syntax) with the set of built-in layers that define them"""
    l0 = cfgmod.DEFAULT_CONFIG.get(section, {})
    l1 = cfgmod.SYNTAX_CONFIG.get(typ, {}).get(section, {})
    l2 = cfgmod.SYNTAX_CONFIG.get(syn, {}).get(section, {})
    keys = list(l0) + [k for k in l1 if k not in l0] + [k for k in l2 if k not in l0 and k not in l1] + EXTRA_KEYS[section]
    out = {}
    for k in keys:
        m = tuple(i for i, l in enumerate((l0, l1, l2)) if k in l)
        out.setdefault(m, []).append(k)
    return out, (l0, l1, l2)


def _marker(section, layer, key, builtin=None):
    if isinstance(builtin, dict):
        # a dict-valued option is replaced as a whole by the more specific layer, never merged into
        return {'mk%d' % layer: 'L%d<%s>' % (layer, key)}
    if isinstance(builtin, list):
        return ['mk%d' % layer]
    if section == 'snippets':
        return 'mk%dq%d' % (layer, zlib.crc32(key.encode()) % 97)
    return 'L%d<%s>' % (layer, key)


def _realise(cfgmod, vec, section, salt):
    """concrete (type, syntax) and keys for both model keys; when no pair of concrete keys realises the vector the
    keys are realised one at a time (the other model key is then simply absent from every layer)"""
    pairs = KNOWN if vec['known'] else UNKNOWN
    want = {k: tuple(i for i in vec['defs'][k] if i <= 2) for k in ('k1', 'k2')}
    n = len(pairs)
    singles = []
    for j in range(n):
        typ, syn = pairs[(salt + j) % n]
        pool, tabs = _pool(cfgmod, section, typ, syn)
        c1s = pool.get(want['k1'], [])
        c2s = pool.get(want['k2'], [])
        if c1s and c2s:
            c1 = c1s[salt % len(c1s)]
            rest = [c for c in c2s if c != c1]
            if rest:
                c2 = rest[(salt // 7) % len(rest)]
                return [(typ, syn, {'k1': c1, 'k2': c2}, tabs)]
        if c1s and not any('k1' in s[2] for s in singles):
            singles.append((typ, syn, {'k1': c1s[salt % len(c1s)]}, tabs))
        if c2s and not any('k2' in s[2] for s in singles):
            singles.append((typ, syn, {'k2': c2s[salt % len(c2s)]}, tabs))
    return singles


def _one(emmet, vec, section, typ, syn, conc, tabs, bad, stats):
    glob = {}
    user = {'type': typ, 'syntax': syn}
    expected = {}
    for mk in sorted(conc):
        c = conc[mk]
        bi = None
        for tab in tabs:
            if c in tab:
                bi = tab[c]
        if section != 'options':
            bi = None
        for layer in vec['defs'][mk]:
            if layer == 3:
                glob.setdefault(typ, {}).setdefault(section, {})[c] = _marker(section, 3, c, bi)
            elif layer == 4:
                glob.setdefault(syn, {}).setdefault(section, {})[c] = _marker(section, 4, c, bi)
            elif layer == 5:
                user.setdefault(section, {})[c] = _marker(section, 5, c, bi)
        eff = vec['eff'][mk]
        if eff >= 3:
            expected[c] = ('marker', _marker(section, eff, c, bi))
        elif eff >= 0:
            expected[c] = ('builtin', tabs[eff][c])
        else:
            expected[c] = ('absent', None)
    # the global configuration also holds sections for syntaxes and for the type that are not asked for: they are no layer of this call
    for other in ('html', 'css', 'pug', 'stylesheet' if typ == 'markup' else 'markup'):
        if other not in (typ, syn):
            for mk in sorted(conc):
                glob.setdefault(other, {}).setdefault(section, {})[conc[mk]] = _marker(section, 9, conc[mk], None)
    user_before = copy.deepcopy(user)
    glob_before = copy.deepcopy(glob)
    case = {'section': section, 'type': typ, 'syntax': syn, 'keys': conc, 'defs': vec['defs'], 'eff': vec['eff'],
            'known': vec['known'], 'user': user_before, 'global': glob_before}
    try:
        conf = emmet.Config(user, glob)
    except Exception as ex:
        bad.append(('Config raised', dict(case, exception=type(ex).__name__)))
        return
    variants = [('', conf)]
    if (typ, syn) in (('markup', 'html'), ('stylesheet', 'css')):
        # the syntax of the call is the default of its type: the same layers apply when the call does not name it
        u2 = {k: v for k, v in user.items() if k != 'syntax' and not (k == 'type' and typ == 'markup')}
        try:
            variants.append((' (default syntax not named by the call)', emmet.Config(u2, glob)))
        except Exception as ex:
            bad.append(('Config raised', dict(case, exception=type(ex).__name__, variant='default syntax not named')))
    for vname, cf in variants:
        merged = getattr(cf, section)
        for c, (kind, val) in expected.items():
            if kind == 'absent':
                if c in merged:
                    bad.append(('effective-value' + vname, dict(case, key=c, expected='<absent>', actual=repr(merged[c]))))
            elif c not in merged or merged[c] != val:
                bad.append(('effective-value' + vname, dict(case, key=c, expected=repr(val), actual=repr(merged.get(c, '<absent>')))))
    # the custom layers of this vector define entries of one section only: the other two sections are what they are without them
    try:
        plain = emmet.Config({'type': typ, 'syntax': syn}, {})
        for other in SECTIONS:
            if other != section and getattr(conf, other) != getattr(plain, other):
                extra = sorted(set(getattr(conf, other)) ^ set(getattr(plain, other)))[:4]
                bad.append(('effective-value (other section)', dict(case, other_section=other, keys=extra)))
    except Exception as ex:
        bad.append(('Config raised', dict(case, exception=type(ex).__name__, variant='without custom layers')))
    if user != user_before or glob != glob_before:
        bad.append(('caller-dict-modified', case))
    # ---- through expand
    for c, (kind, val) in expected.items():
        obs = _observe(emmet, section, typ, syn, c, kind, val, user, glob, conc)
        if obs is None:
            continue
        stats['expand_checks'] += 1
        if obs is not True:
            bad.append(('effective-value-through-expand', dict(case, key=c, detail=obs)))
    if user != user_before or glob != glob_before:
        bad.append(('caller-dict-modified-by-expand', dict(case, user_after=repr(user), global_after=repr(glob))))


def _chunk(vecs):
    import emmet
    from emmet import config as cfgmod
    from emmet import snippets as snipmod
    bad = []
    stats = {'realised': 0, 'realised_single_key': 0, 'unrealisable': 0, 'expand_checks': 0}
    builtin_before = copy.deepcopy((cfgmod.DEFAULT_CONFIG, cfgmod.SYNTAX_CONFIG, snipmod.markup_snippets,
                                    snipmod.stylesheet_snippets, snipmod.xsl_snippets, snipmod.pug_snippets,
                                    snipmod.variables, cfgmod.DEFAULT_SYNTAXES, cfgmod.SYNTAXES))
    for vi, vec in vecs:
        for section in SECTIONS:
            salt = zlib.crc32(('%d%s' % (vi, section)).encode())
            rzs = _realise(cfgmod, vec, section, salt)
            if not rzs:
                stats['unrealisable'] += 1
                continue
            if len(rzs[0][2]) == 2:
                stats['realised'] += 1
            else:
                stats['realised_single_key'] += len(rzs)
            for typ, syn, conc, tabs in rzs:
                _one(emmet, vec, section, typ, syn, conc, tabs, bad, stats)
    builtin_after = (cfgmod.DEFAULT_CONFIG, cfgmod.SYNTAX_CONFIG, snipmod.markup_snippets, snipmod.stylesheet_snippets,
                     snipmod.xsl_snippets, snipmod.pug_snippets, snipmod.variables, cfgmod.DEFAULT_SYNTAXES, cfgmod.SYNTAXES)
    if builtin_before != builtin_after:
        bad.append(('builtin-table-modified', {'first_vector': vecs[0][1]}))
    return [('STATS', stats)] + bad


SAFE_OPTIONS = {'output.indent', 'output.baseIndent', 'output.newline', 'stylesheet.between', 'stylesheet.after', 'output.tagCase',
                'output.attributeCase', 'output.attributeQuotes', 'output.selfClosingStyle', 'x.custom1', 'x.custom2',
                'comment.before', 'comment.after', 'bem.element', 'bem.modifier', 'stylesheet.intUnit', 'stylesheet.floatUnit'}


def _observe(emmet, section, typ, syn, c, kind, val, user, glob, conc):
    """Observe the effective value of key c through expand(); None = this key has no suitable visible effect."""
    try:
        if section == 'snippets':
            if ' ' in c or not c or '|' in c or (typ == 'stylesheet' and c == 'lg'):
                return None      # 'lg' is the hard-wired gradient shortcut, resolved before the snippet table
            out = emmet.expand(c, user, glob)
            if kind == 'marker':
                return True if val in out else 'expand(%r) = %r does not show snippet %r' % (c, out, val)
            if typ == 'stylesheet':
                return None      # fuzzy matching: another (marker) snippet may legitimately answer for this key
            others = [k for k in conc.values() if k != c]
            if kind == 'builtin' and any(o in str(val) for o in others):
                return None      # the built-in definition refers to the other (overridden) key, e.g. xsl -> !!!
            base = emmet.expand(c, {'type': typ, 'syntax': syn})
            return True if out == base else 'expand(%r) = %r differs from the result without overriding layers %r' % (c, out, base)
        if section == 'options':
            if not all(k in SAFE_OPTIONS for k in conc.values()):
                return None      # the marker given to the other key (a callable, a list ...) would make expand() meaningless
            if c == 'output.newline' and typ == 'markup':
                out = emmet.expand('x+y', user, glob)
                nl = val if kind in ('marker', 'builtin') else '\n'
                return True if nl in out else 'expand(x+y) = %r does not contain newline %r' % (out, nl)
            if c == 'stylesheet.between' and typ == 'stylesheet':
                out = emmet.expand('p10', user, glob)
                return True if ('padding' + val + '10') in out else 'expand(p10) = %r does not use between %r' % (out, val)
            if c == 'output.selfClosingStyle' and typ == 'markup' and syn in ('html', 'xml', 'xsl', 'jsx', 'vue', 'svelte', 'xhtml', 'foo', 'bar'):
                out = emmet.expand('zzx/', user, glob)
                tok = {'xhtml': ' /', 'xml': '/'}.get(val if kind in ('marker', 'builtin') else 'html', '')
                return True if out == '<zzx%s>' % tok else 'expand(zzx/) = %r does not use the self-closing token %r of style %r' % (out, tok, val)
            if c == 'output.indent' and typ == 'markup' and syn in ('html', 'xml', 'pug', 'haml', 'slim'):
                out = emmet.expand('x>y', user, glob)
                return True if ('\n' + val) in out else 'expand(x>y) = %r does not use indent %r' % (out, val)
            return None
        if section == 'variables':
            if kind == 'absent' or typ != 'markup' or syn in ('pug', 'haml', 'slim') or any(ch.isspace() for ch in val):
                return None
            out = emmet.expand('x[l="${%s}"]' % c, user, glob)
            if ('l="%s"' % val) not in out:
                return 'expand(x[l="${%s}"]) = %r does not show %r' % (c, out, val)
            # the same variable read inside the definition of a snippet alias (the alias is parsed by a second call of the parser)
            u2 = copy.deepcopy(user)
            u2.setdefault('snippets', {})['vvq'] = 'y[l="${%s}"]' % c
            out = emmet.expand('vvq', u2, glob)
            return True if ('l="%s"' % val) in out else 'expand(vvq) with vvq = y[l="${%s}"] gives %r, which does not show %r' % (c, out, val)
    except Exception as ex:
        return 'expand raised %s: %s' % (type(ex).__name__, ex)
    return None


def run(out):
    out.rule = ('one case per (vector, section): a vector fixes for two keys which of the six layers mention them (all 2^6 x 2^6 '
                'assignments with a known syntax, 2^5 x 2^5 with an unknown one); realised with concrete keys / (type, syntax) pairs; '
                'non-trivial = at least two layers mention one of the keys; distinct by (section, type, syntax, keys, layer sets)')
    out.assumptions = ['which built-in layer defines a concrete key is read from emmet.config.DEFAULT_CONFIG / SYNTAX_CONFIG of the '
                       'tree under test (these *are* the built-in tables of the statement)',
                       'subsets that no built-in key realises (e.g. an option defined by the type defaults) are counted as '
                       'unrealisable in the evidence, not as covered']
    r = common.run_tlc('ConfigLayers')
    out.add_tlc('ConfigLayers-exhaustive', r)
    out.exhaustive = r.exhaustive
    if r.violated:
        out.violation('spec-invariant %s violated in the model' % r.violated, {'tlc': r.error[:3000]})
        return
    vecs = list(enumerate(r.vectors()))
    if out.tier == 'quick':
        # every single-key pattern is kept for k1 (all 64 + 32), k2 patterns are sampled
        vecs = [(i, v) for i, v in vecs if (i + out.seed) % 3 == 0 or v['defs']['k2'] in ([], [0], [5])]
    res = common.pool_map(_chunk, vecs, chunk=200)
    stats = {'realised': 0, 'realised_single_key': 0, 'unrealisable': 0, 'expand_checks': 0}
    for what, case in res:
        if what == 'STATS':
            for k in stats:
                stats[k] += case[k]
            continue
        out.violation(what, case)
    out.parts[-1].update(stats)
    out.traces += stats['realised'] + stats['realised_single_key']
    out.evaluations += stats['realised'] + stats['realised_single_key'] + stats['expand_checks']
    out.distinct_count = sum(1 for i, v in vecs if len(v['defs']['k1']) >= 2 or len(v['defs']['k2']) >= 2)
    for i, v in vecs[1000:1003]:
        out.sample(v)


def replay(case):
    import emmet
    c = case['case']
    conf = emmet.Config(copy.deepcopy(c['user']), copy.deepcopy(c['global']))
    return 'Config(%r, %r).%s -> %r' % (c['user'], c['global'], c['section'],
                                        {k: getattr(conf, c['section']).get(k, '<absent>') for k in c['keys'].values()})
