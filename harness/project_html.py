"""Independent lexer for the HTML/XML/JSX text that emmet prints (does not import emmet).

lex(text)            -> list of events
    ('open',  name, attrs, selfclosed, offset, line, col)     attrs = [(name, quote, value)], quote in '"', "'", '{', ''
    ('close', name, offset, line, col)
    ('text',  string, offset, line, col)
    ('comment', string, offset, line, col)
    ('decl', string, ...)                                      <!doctype ...>, <?xml ...?>
tree(events, voids)  -> flat pre-order listing [{'d': depth, 'n': name, 'a': attrs, 't': text directly inside, before children}]

The lexer is strict: anything it cannot read raises LexError, which the property checks report as a violation
("output is not the markup the abbreviation denotes") and never skip.
"""


class LexError(Exception):
    pass


NAME_CH = set('abcdefghijklmnopqrstuvwxyzABCDEFGHIJKLMNOPQRSTUVWXYZ0123456789-_:.$@#*![]()é日~')


def lex(text, newline='\n'):
    ev = []
    i = 0
    n = len(text)
    line = 0
    linestart = 0

    def pos(k):
        return (k, line, k - linestart)

    def advance_lines(a, b):
        nonlocal line, linestart
        k = text.find('\n', a, b)
        while k != -1:
            line += 1
            linestart = k + 1
            k = text.find('\n', k + 1, b)

    while i < n:
        if text.startswith('<!--', i):
            j = text.find('-->', i + 4)
            if j < 0:
                raise LexError('unterminated comment at %d' % i)
            ev.append(('comment', text[i + 4:j]) + pos(i))
            advance_lines(i, j + 3)
            i = j + 3
        elif text.startswith('<!', i) or text.startswith('<?', i):
            j = text.find('>', i)
            if j < 0:
                raise LexError('unterminated declaration at %d' % i)
            ev.append(('decl', text[i:j + 1]) + pos(i))
            advance_lines(i, j + 1)
            i = j + 1
        elif text.startswith('</', i):
            j = i + 2
            while j < n and text[j] in NAME_CH:
                j += 1
            name = text[i + 2:j]
            if not name or j >= n or text[j] != '>':
                raise LexError('bad closing tag at %d: %r' % (i, text[i:i + 20]))
            ev.append(('close', name) + pos(i))
            i = j + 1
        elif text[i] == '<' and i + 1 < n and (text[i + 1] in NAME_CH):
            start = i
            p0 = pos(i)
            j = i + 1
            while j < n and text[j] in NAME_CH:
                j += 1
            name = text[i + 1:j]
            attrs = []
            selfclosed = False
            while True:
                k = j
                while j < n and text[j] in ' \t\r\n':
                    j += 1
                if j >= n:
                    raise LexError('unterminated tag at %d' % start)
                if text[j] == '>':
                    j += 1
                    break
                if text.startswith('/>', j):
                    selfclosed = True
                    j += 2
                    break
                if j == k:
                    raise LexError('attribute not separated by blank at %d: %r' % (j, text[start:j + 10]))
                a0 = j
                while j < n and text[j] not in ' \t\r\n=>/' :
                    j += 1
                if j < n and text[j] == '/' and not text.startswith('/>', j):
                    # a slash inside an attribute name is not produced by emmet for generated names
                    while j < n and text[j] not in ' \t\r\n=>':
                        j += 1
                aname = text[a0:j]
                if not aname:
                    raise LexError('empty attribute name at %d: %r' % (j, text[start:j + 10]))
                if j < n and text[j] == '=':
                    j += 1
                    if j < n and text[j] in '"\'':
                        q = text[j]
                        e = text.find(q, j + 1)
                        if e < 0:
                            raise LexError('unterminated attribute value at %d' % j)
                        attrs.append((aname, q, text[j + 1:e]))
                        j = e + 1
                    elif j < n and text[j] == '{':
                        depth = 0
                        e = j
                        while e < n:
                            if text[e] == '{':
                                depth += 1
                            elif text[e] == '}':
                                depth -= 1
                                if depth == 0:
                                    break
                            e += 1
                        if e >= n:
                            raise LexError('unterminated expression value at %d' % j)
                        attrs.append((aname, '{', text[j + 1:e]))
                        j = e + 1
                    else:
                        e = j
                        while e < n and text[e] not in ' \t\r\n>':
                            e += 1
                        attrs.append((aname, '', text[j:e]))
                        j = e
                else:
                    attrs.append((aname, None, None))
            ev.append(('open', name, attrs, selfclosed) + p0)
            advance_lines(start, j)
            i = j
        else:
            j = i
            while j < n:
                if text[j] == '<' and (text.startswith('</', j) or text.startswith('<!', j) or text.startswith('<?', j)
                                       or (j + 1 < n and text[j + 1] in NAME_CH)):
                    break
                j += 1
            ev.append(('text', text[i:j]) + pos(i))
            advance_lines(i, j)
            i = j
    return ev


def tree(events, voids=(), html_void_style=True):
    """flat pre-order listing; `voids` = names that were written self-closing in the abbreviation and therefore have no
    closing tag when the self-closing style is 'html'"""
    out = []
    stack = []
    for e in events:
        k = e[0]
        if k == 'open':
            name, attrs, selfclosed = e[1], e[2], e[3]
            node = {'d': len(stack), 'n': name, 'a': [list(a) for a in attrs], 't': '', 'kids': 0, 'sc': bool(selfclosed)}
            if stack:
                out[stack[-1]]['kids'] += 1
            out.append(node)
            if not selfclosed and not (name in voids):
                stack.append(len(out) - 1)
        elif k == 'close':
            if not stack or out[stack[-1]]['n'] != e[1]:
                raise LexError('closing tag </%s> at %d does not match open element %s' % (
                    e[1], e[2], out[stack[-1]]['n'] if stack else None))
            stack.pop()
        elif k == 'text':
            if stack and out[stack[-1]]['kids'] == 0:
                out[stack[-1]]['t'] += e[1]
            elif e[1].strip():
                # text between/after children or at top level: recorded as a pseudo node
                out.append({'d': len(stack), 'n': '#text', 'a': [], 't': e[1], 'kids': 0})
                if stack:
                    out[stack[-1]]['kids'] += 0
    if stack:
        raise LexError('unclosed element %s' % out[stack[-1]]['n'])
    return out


def names(listing):
    return [[x['d'], x['n']] for x in listing if x['n'] != '#text']
