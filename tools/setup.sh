#!/bin/sh
# Offline setup: nothing is built; verify that the tools the checks need are present.
set -e
test -x /venv/bin/python
test -f /opt/veriftools/tla/tla2tools.jar
java -version >/dev/null 2>&1
/venv/bin/python -c "import sys; sys.path.insert(0, '/repo'); import emmet" 
mkdir -p /verif/evidence /verif/replay
echo setup ok
