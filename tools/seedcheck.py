#!/usr/bin/env python3
"""tools/seedcheck.py <ID> <A|B> [--tier quick|thorough] [--keep]

Confirms an independently written seeded change (/tmp/wt/<ID>/_seed/<X>.patch.diff + demo + meta) on a scratch copy of /repo:
the patch applies, the 141 repository tests still pass, the demonstration passes on /repo and fails on the copy; then runs
./check <ID> against the copy.  With --keep the seed is stored as /verif/seeded/<ID>-<X>/ (patch.diff, demo.py, meta.json).
"""
import json, os, shutil, subprocess, sys, tempfile, time

def sh(cmd, **kw):
    return subprocess.run(cmd, shell=True, capture_output=True, text=True, **kw)

def main():
    pid, x = sys.argv[1], sys.argv[2]
    tier = 'quick'
    if '--tier' in sys.argv:
        tier = sys.argv[sys.argv.index('--tier') + 1]
    src = '/tmp/wt/%s/_seed' % pid if not os.path.isdir('/verif/seeded/%s-%s' % (pid, x)) or '--fresh' in sys.argv else None
    if src:
        patch, demo, meta = ('%s/%s.%s' % (src, x, s) for s in ('patch.diff', 'demo.py', 'meta.json'))
    else:
        d = '/verif/seeded/%s-%s' % (pid, x)
        patch, demo, meta = d + '/patch.diff', d + '/demo.py', d + '/meta.json'
    for f in (patch, demo, meta):
        if not os.path.exists(f):
            print('missing', f); return 2
    work = tempfile.mkdtemp(prefix='seed-')
    try:
        sh('git -C /repo archive HEAD | tar -x -C %s' % work)
        r = sh('git apply --unsafe-paths --directory=%s %s' % (work, patch), cwd=work)
        if r.returncode != 0:
            r = sh('patch -p1 -d %s < %s' % (work, patch))
        if r.returncode != 0:
            print('PATCH DOES NOT APPLY', r.stderr[-400:]); return 2
        t = sh('cd %s && PYTHONPATH=%s /venv/bin/python -m pytest -q -p no:cacheprovider tests 2>&1 | tail -1' % (work, work))
        tests = t.stdout.strip()
        clean = sh('EMMET_REPO=/repo PYTHONPATH=/repo /venv/bin/python %s' % demo, cwd='/tmp')
        bad = sh('EMMET_REPO=%s PYTHONPATH=%s /venv/bin/python %s' % (work, work, demo), cwd='/tmp')
        print('tests:', tests, '| demo on /repo: exit', clean.returncode, '| demo with patch: exit', bad.returncode)
        confirmed = ('passed' in tests and 'failed' not in tests and clean.returncode == 0 and bad.returncode != 0)
        t0 = time.time()
        c = sh('VERIF_REPO=%s /verif/check %s --tier %s 2>&1 | tail -3' % (work, pid, tier))
        out = c.stdout.strip()
        detected = 'VIOLATION property=%s' % pid in out
        print('check %s %s: %s (%.0fs)' % (pid, tier, 'DETECTED' if detected else 'not detected', time.time() - t0))
        print('\n'.join(l[:400] for l in out.splitlines()[-3:]))
        if '--keep' in sys.argv and confirmed:
            d = '/verif/seeded/%s-%s' % (pid, x)
            os.makedirs(d, exist_ok=True)
            if src:
                shutil.copy(patch, d + '/patch.diff'); shutil.copy(demo, d + '/demo.py')
            m = json.load(open(meta))
            prev = json.load(open(d + '/meta.json')) if os.path.exists(d + '/meta.json') else {}
            for k in ('first_quick_run', 'strengthening'):
                if k in prev:
                    m[k] = prev[k]
            if tier == 'quick':
                m.setdefault('first_quick_run', 'detected' if detected else 'missed')
            m.update({'property': pid, 'confirmed': {'applies_to': sh('git -C /repo rev-parse --short HEAD').stdout.strip(),
                                                     'repository_tests': tests, 'demo_exit_on_unchanged_tree': clean.returncode,
                                                     'demo_exit_with_change': bad.returncode},
                      'what_was_run': 'tools/seedcheck.py %s %s --tier %s (scratch copy of /repo with the patch applied, VERIF_REPO)' % (pid, x, tier)})
            det = m.get('detected_by', {})
            det[tier] = {'detected': detected, 'last_lines': out.splitlines()[-2:][0][:300] if out else ''}
            m['detected_by'] = det
            json.dump(m, open(d + '/meta.json', 'w'), indent=1)
        return 0 if confirmed else 3
    finally:
        shutil.rmtree(work, ignore_errors=True)

if __name__ == '__main__':
    sys.exit(main())
