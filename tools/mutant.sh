#!/bin/sh
# usage: tools/mutant.sh <ID> <file-relative-to-repo> <python-expr-old> <python-expr-new>   (literal string replace in a scratch copy)
ID="$1"; F="$2"; OLD="$3"; NEW="$4"
D=$(mktemp -d /tmp/mut.XXXXXX)
cp -r /repo/emmet "$D/emmet"
python3 - "$D/$F" "$OLD" "$NEW" <<'PY'
import sys
p,old,new=sys.argv[1:4]
t=open(p).read()
assert old in t, 'pattern not found'
open(p,'w').write(t.replace(old,new,1))
PY
[ $? -eq 0 ] || { rm -rf "$D"; exit 3; }
(cd "$D" && cp -r /repo/tests . && /venv/bin/python -m pytest -q -p no:cacheprovider -x tests 2>&1 | tail -1)
VERIF_REPO="$D" /verif/check "$ID" ${TIER:+--tier $TIER} 2>&1 | tail -2 | cut -c1-400
rm -rf "$D"
