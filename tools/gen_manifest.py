#!/usr/bin/env python3
"""Regenerates /verif/MANIFEST.json from the table below (python3 tools/gen_manifest.py)."""
import json, os

HERE = os.path.dirname(os.path.dirname(os.path.abspath(__file__)))
BASELINE = "cd /repo && /venv/bin/python -m pytest -ra -q -p no:cacheprovider --timeout=900 --continue-on-collection-errors"

CHECKS = {
 'C19': dict(
   text="TLC proves, for every generated string (all grammatical token sequences up to the bound, all strings over a 12-symbol "
        "and a 5-symbol structural alphabet up to the bound, simulated longer expressions), that the implementation-shaped machine "
        "(parse priorities, order_tokens, RPN) equals an independent recursive-descent contract with exact rationals; every one of "
        "those strings is then replayed into the real evaluate() and compared by outcome class and value, and every extract() call "
        "on the same strings x positions x options is validated as a trace against the range monitor Trace_MathExtract.",
   note="Bounded (constants in the evidence). Trusted: TLC, CommunityModules Json/IOUtils, float-vs-rational comparison within 1e-9; "
        "outcome where float rounding decides (floor/zero test on non-dyadic operands) is only checked for absence of internal errors.",
   technique="TLA+ spec (machine = contract by TLC) + spec->code behaviour replay + code->spec trace validation",
   ref="5/C19"),
}

CHECKS['C13'] = dict(
   text="Three bound layers. (1) OutputStream.tla: TLC checks that offset/line/column of the stream machine equal the positions "
        "recomputed from the final string for every push sequence up to the bound. (2) Tabstops.tla: TLC checks that the field "
        "counter machine (base += largest+1 per value) satisfies the statement's numbering clauses for every generated "
        "abbreviation; each abbreviation with its expected (number, placeholder) sequence is replayed through expand() in "
        "html/xml/jsx/vue/pug/haml/slim. (3) every invocation of output.text/output.field of a sample of those runs (and of "
        "stylesheet runs) is recorded and validated as a trace against the OutputStream actions by Trace_OutputStream.tla. (4) AbbrGrammar.tla "
        "+ AbbrPrint.tla (field counter of the HTML and the HAML/Pug/Slim formatter and of the comment addon, transcribed) give the "
        "tabstop sequence of every abbreviation of the documented grammar over a fragment set; compared with expand() under a marking "
        "callback in html (with and without comment.enabled), pug, haml, slim.",
   note="Bounded. Callbacks that return text of other length are exercised, callbacks that rewrite the newline itself are not. "
        "Text with fields only on leaves. Trusted: TLC, Json/IOUtils modules, the 40-line recorder.",
   technique="TLA+ design model + spec->code replay of generated behaviours + code->spec trace validation of callback events",
   ref="5/C13")

CHECKS['C20'] = dict(
   text="ConfigLayers.tla: TLC enumerates, for two keys, every assignment of which of the six layers mention them (known and unknown "
        "syntax), proves that six update steps give the value of the most specific mentioning layer, that a non-mentioning layer "
        "leaves a key untouched at every intermediate step and that layers are never written. Every assignment is realised with "
        "concrete option/snippet/variable keys and (type, syntax) pairs of the tree under test (built-in layers by choice of key, "
        "caller layers by marker values) and compared with Config(user, global), with what expand() shows, and with deep copies of "
        "the built-in tables and caller dictionaries.",
   note="Exhaustive over layer subsets; subsets no built-in key can realise are reported as unrealisable in the evidence. Built-in "
        "layer membership of a concrete key is read from the tree's own tables.",
   technique="TLA+ spec (machine = contract by TLC, exhaustive) + spec->code replay of every layer assignment",
   ref="5/C20")

CHECKS['C08'] = dict(
   text="Session.tla models the only state that survives a call (the caller's 'text' entry, the caller's cache dict with the table "
        "it was built from and units written into cached tokens, per-call objects reachable from module state) with one action per "
        "step of markup.parse()/stylesheet.parse(). TLC checks CallerConfigStable, ResultPure and NoRetention for every history up to "
        "the bound over 150 call kinds (21 caller objects incl. shared Config instances, cache dicts shared by stylesheet and by markup callers, "
        "scope contexts, dict-valued options, an empty text; succeeding and failing calls, the empty abbreviation) and proves each invariant non-vacuous by switching on the eight named as-is deviations. Every history is executed "
        "against the real expand(); after each call the state of every caller object, equality with the same call's result in a fresh "
        "interpreter, a gc census of live library objects and a structural comparison of every module-level table of the library with its import-time value are logged, and Trace_Session.tla validates the log by performing the call "
        "with Session's own actions.",
   note="Bounded histories (all histories of 2 calls executed; thorough: all histories of 3 calls model-checked and a sample of 90 000 executed; simulated beyond). Census relies on CPython gc; objects held by "
        "a caller-supplied cache are not retention. Fresh results: one new interpreter per call kind.",
   technique="TLA+ step-level model with deviation self-test + spec->code history replay + code->spec trace validation",
   ref="5/C08")

CHECKS['C01'] = dict(
   text="AbbrTree.tla: an online generator of the documented grammar drives, in the same step, the parser's ctx/stack machine (one "
        "frame per statements() activation, unrolled like the converter) and an independent depth-number contract; TLC checks that "
        "both denote the same pre-order listing, that every written element occurs exactly once per repetition and in written order, "
        "for every skeleton up to the bound (full alphabet, a deep single-name instance for stack discipline, all documented "
        "implicit-name parents and all inline parents) and for simulated abbreviations of 30-44 tokens. Every complete abbreviation "
        "is expanded by the real expand() under html/xhtml/xml x format on/off and its tag listing, read by an independent lexer, "
        "must equal the contract's listing with implicit names resolved by the documented table. Second layer: AbbrGrammar.tla generates every abbreviation of the documented grammar over a property-specific set of syntactic fragments; AbbrConvert.tla (tokenizer, token parser and convert() transcribed from the code, TLC-checked for acceptance, tiling and tree shape) computes its node tree and AbbrPrint.tla (implicit names, attribute merging, the HTML formatter with formatting off) its markup; the tree of the real emmet.abbreviation.parse() and the output of the real expand() (read by the tag lexer) are compared with them on depth, name and self-closing mark (all operator sequences of up to 11 fragments, all mixes with groups and repeaters up to 6).",
   note="Bounded skeletons; '>' after a group or a self-closed element and the undocumented extra parents of the implicit-name table "
        "are outside the generated grammar. Trusted: TLC, the tag lexer harness/project_html.py.",
   technique="TLA+ spec (stack machine = depth contract by TLC; transcription of tokenizer/parser/convert) + spec->code replay of every generated abbreviation",
   ref="5/C01")

CHECKS['C02'] = dict(
   text="AbbrRepeat.tla: generator of abbreviations with *N on elements and groups and eight numbering forms in names, classes, "
        "attribute values and text; the converter's copy loop as an explicit work-stack machine (EnterNode, BeginCopy, NextKid, "
        "EndCopy with the repeat budget). TLC checks: unlimited budget = stack-free unrolling with Counter(i,N,base,rev) of the nearest "
        "repeated item; any budget = functional contract threading completed copies in document order; guard = limit - completed; no "
        "second or later copy begins once the limit is reached; every written element at least once; padding width. Every terminal "
        "state (abbreviation, maxRepeat) is replayed through expand() and compared on copies, nesting and printed counters. Second layer: AbbrGrammar.tla generates every abbreviation of the documented grammar over a property-specific set of syntactic fragments; AbbrConvert.tla (tokenizer, token parser and convert() transcribed from the code, TLC-checked for acceptance, tiling and tree shape) computes its node tree and AbbrPrint.tla (implicit names, attribute merging, the HTML formatter with formatting off) its markup; the tree of the real emmet.abbreviation.parse() and the output of the real expand() (read by the tag lexer) are compared with them on names, text and attribute values under maxRepeat none / 3 / 1 (forms $, $$@3, $@-, $$@-5, $@^, $@^^, repeaters *1 *2 *3 *).",
   note="Bounded (tokens, nesting, N<=4, limits {1,2,3,5,8}); '@-' values under a truncating limit are not judged (statement silent). "
        "Trusted: TLC, tag lexer.",
   technique="TLA+ step machine = contracts (TLC) + spec->code replay of every terminal state",
   ref="5/C02")

CHECKS['C03'] = dict(
   text="AbbrAttrs.tla: every sequence of up to 3 (thorough: 4, simulated: 7) attribute mentions over 22 shapes (#id, .class, valueless, "
        "raw/double/single quoted, empty, boolean mark, listed boolean, implied with and without value, expression, class=/id=, "
        "values containing > and *). TLC checks that the merge machine (one action per mention) equals the loop-free contract "
        "(position of first mention, class values joined in written order, last value - first under reverseAttributes), that no "
        "name is emitted twice, and computes for eight option rows (html/xml/jsx/vue x quotes x case x compactBoolean x "
        "selfClosingStyle) the attribute list the printer must emit. Every vector is expanded by the real code under the rows and the "
        "printed tag's (name, quote, value) list read by the independent lexer must be equal. Second layer: AbbrGrammar.tla generates every abbreviation of the documented grammar over a property-specific set of syntactic fragments; AbbrConvert.tla (tokenizer, token parser and convert() transcribed from the code, TLC-checked for acceptance, tiling and tree shape) computes its node tree and AbbrPrint.tla (implicit names, attribute merging, the HTML formatter with formatting off) its markup; the tree of the real emmet.abbreviation.parse() and the output of the real expand() (read by the tag lexer) are compared with them on the attribute lists (name, value, value type, boolean and implied marks) of every element.",
   note="Statement-silent mention sequences (flag computed by the spec) are generated but not judged. Snippet-provided attributes "
        "are covered by C14. Trusted: TLC, tag lexer.",
   technique="TLA+ merge machine = contract (TLC) + spec->code replay under option rows",
   ref="5/C03")

CHECKS['C04'] = dict(
   text="Two specifications. AbbrText.tla: every balanced text payload over the punctuation alphabet (operators, brackets, quotes, *, "
        "#, @, blanks, a non-ASCII stand-in, nested braces, backslash escapes incl. escaped $ { } and backslash) up to the bound and "
        "simulated to 14 units; TLC checks the tokenizer-in-text-context machine (white-space token, literal() with escaped() and "
        "nesting counter) against TextOf = payload minus escaping backslashes, and that nothing ends the text early; each payload is "
        "replayed at nine positions text may appear in, and the printed content of the element must equal TextOf byte for byte. "
        "AbbrWrap.tla: every list of up to 3 (simulated 6) wrap lines over 17 atoms (blank, padded, lines that look like syntax or "
        "numbering, non-ASCII, backslash) x 15 templates (implicit repeater on elements and groups, $# in attribute and text, text "
        "already present, numbering, no repeater); TLC checks the converter loop with its `inserted` flag against a loop-free "
        "contract; each vector is replayed through expand(abbr, {'text': ...}) (list and, without repeater, string). Second layer: AbbrGrammar.tla generates every abbreviation of the documented grammar over a property-specific set of syntactic fragments; AbbrConvert.tla (tokenizer, token parser and convert() transcribed from the code, TLC-checked for acceptance, tiling and tree shape) computes its node tree and AbbrPrint.tla (implicit names, attribute merging, the HTML formatter with formatting off) its markup; the tree of the real emmet.abbreviation.parse() and the output of the real expand() (read by the tag lexer) are compared with them on the text of every element (escapes, nested braces, operators inside text, fields, $# and $ inside text).",
   note="Unescaped $ in payloads belongs to C02/C13; '<' and double quotes in lines are not generated (lexer limits). Multi-line "
        "insertions are compared as trimmed line lists. Trusted: TLC, tag lexer.",
   technique="TLA+ machine = contract (TLC) + spec->code replay at every text position / template",
   ref="5/C04")

CHECKS['C18'] = dict(
   text="Strings.tla enumerates every string up to the bound over a 29-symbol markup alphabet and a 28-symbol stylesheet alphabet "
        "(every as-you-type prefix is a state; stand-ins for a non-ASCII letter, a non-decimal digit character and a decimal digit of "
        "another script), every combination of the numbering symbols up to five, and simulates longer strings over structural "
        "alphabets; Fragments.tla enumerates every sequence of up to three (thorough: four) syntactic fragments; the real markup tokenizer and "
        "the real stylesheet tokenizer in property and in value mode are run on each string, and every token list (type, start, end) "
        "or raised error is validated as a trace by Trace_Tiling.tla, whose single state variable is the position up to which the "
        "input is covered: token k must start exactly there, be non-empty, stay inside the input, the last one must end at the end; an "
        "error must be the scanner error with a position inside the input.",
   note="The deciding specification is the acceptance machine of the property plus the exhaustive input generators. In addition the "
        "char-level transcription of the markup tokenizer, token parser and convert() (AbbrSyntax.tla, AbbrConvert.tla; TLC checks "
        "Tiling, ErrorInside, NoInternal on every string) is compared with the real code on every string of two alphabets in every run "
        "(token spans, parse tree, outcome class, error position, converted tree); differences are reported as diagnostics in the "
        "evidence, there are none. Bounded (length 3 quick / 4 thorough exhaustively, 10-14 simulated).",
   technique="TLA+ input enumeration (TLC) + code->spec trace validation of every token list",
   ref="5/C18")
CHECKS['C07'] = dict(
   text="Strings.tla enumerates every string up to the bound over the markup and stylesheet alphabets (incl. stand-ins for a non-ASCII "
        "letter, a non-decimal digit character and a decimal digit of another script) and simulates longer structural strings; "
        "Fragments.tla enumerates every sequence of up to three (thorough: four) syntactic fragments (27 markup, 27 stylesheet "
        "fragments such as #i, [\"q\"], $@^2, {$#}, rgb(0,0,0), ${1:a}); these, plus one-character deletions/duplications/replacements/insertions of every abbreviation literal harvested "
        "from the repository's tests, are expanded by the real expand() under 13 markup configurations (html, jsx, pug, xsl+comments, "
        "BEM, wrap text as list and string, context+BEM, slim+maxRepeat, vue with formatting options) resp. 8 stylesheet "
        "configurations (css, scss, stylus, value context, section and property scope, JSON, skipUnmatched off). Every outcome "
        "(class, reported position) is validated by Trace_Outcome.tla: a string, or one of the two parse errors with a position "
        "that is absent or inside the input; everything else, a timeout included, rejects.",
   note="The specification is the acceptance machine plus the exhaustive input generator. Repeat counts of three or more digits run "
        "under a repeat budget; lorem output is random, only the outcome class is observed.",
   technique="TLA+ input enumeration (TLC) + code->spec trace validation of every outcome",
   ref="5/C07")

CHECKS['C05'] = dict(
   text="CssValues.tla renders abstract value lists (37 shapes: integers, floats .5 / 1. / 1.25, negatives, every unit alias and explicit "
        "unit, colours of 1/2/3/6 digits with and without alpha, the keyword a; with and without !; up to 3 values, two + joined "
        "properties, simulated longer lists) with the minimal separators of the statement, runs the char-level transcription of the "
        "real tokenizer (CssTokenizer.tla) on the rendering and lets TLC check the round trip (no value split, merged or swallowed), "
        "the tiling of token spans and the colour invariants (printed hex parses back to the same channels, short form only when every "
        "channel is a multiple of 17). For five option rows (css/scss/sass/stylus/less conventions x intUnit/floatUnit/unitAliases/"
        "shortHex) the spec computes the exact output lines; every vector is expanded by the real code under the rows and compared "
        "as strings (differences in white space only are diagnostics).",
   note="Not generated (statement silent): -0, 4/5/7+ digit colours, more than four decimals, ! without value. A shared cache per syntax "
        "keeps the run short.",
   technique="TLA+ tokenizer machine round-trip theorem (TLC) + spec->code replay of expected output lines",
   ref="5/C05")
CHECKS['C06'] = dict(
   text="The raw stylesheet snippet table of the tree under test is dumped to JSON and read by CssSnippets.tla, which splits keys at | "
        "and takes definitions apart by its own rules, evaluates calculate_score with exact rationals and the find_best_match loop on "
        "the whole table and checks for every key: it selects its own entry (OwnKey), no other key is a direct hit (NoOtherDirectHit), "
        "every dash-free keyword typed in full in either letter case resolves to itself (KeywordSelf). Per key the spec prints kind, "
        "property, first alternative and keywords; replay: expand(key) x syntaxes x {default, marking field callback}, key:KW and key-KW "
        "in lower/upper/capitalised form for every keyword, section and property scopes, and the same for the table with user entries "
        "(override of a built-in key, new property key, new raw key).",
   note="Exhaustive over the table. Values are compared with blanks removed and tabstops replaced by placeholders; definitions with a "
        "tabstop inside a quoted string and the hard-wired 'lg' gradient shortcut under scopes are not judged.",
   technique="TLA+ evaluation of the scoring/matching machine on the real table (TLC, exhaustive) + spec->code replay",
   ref="5/C06")

CHECKS['C09'] = dict(
   text="HtmlDoc.tla builds every document of up to N segments (19 segment kinds: open tags with quoted / unquoted / expression / "
        "boolean / *ng / #ref attributes containing '>', close, self-closed, void, comment / CDATA / PI with tag-like bodies, style and "
        "script with markup-like bodies, script with a non-special type, text with a stray '>') in HTML and in XML mode while "
        "recording the ground truth (element ranges, depth, parent, attribute offsets, expected scan events). TLC checks, at every "
        "position of every complete document, that the code's stack machines for match / balanced_outward / balanced_inward (early "
        "exit, first-child chain) equal the stack-free contract on the truth table, that the truth slices to the tags, and (ScanInv / AttrInv) that HtmlScan.tla - scan() and attributes() transcribed character by character - reads the document back to exactly the recorded events and attribute table. Every "
        "document is then given to the real scan / match / balanced_outward / balanced_inward at every position; names, open / close "
        "ranges and attribute name / value ranges and slices must equal the truth.",
   note="Well-nested documents with fixed segment texts (malformed input: C16). Exhaustive to 3-4 segments quick / 5 thorough, "
        "simulated to 25 segments and depth 6.",
   technique="TLA+ machines = contract at every position, scanner transcription = generator truth (TLC) + spec->code replay of every document and position",
   ref="5/C09")

CHECKS['C10'] = dict(
   text="CssDoc.tla builds every stylesheet of up to N segments (six selector shapes incl. pseudo-class, pseudo-element, attribute "
        "selector with a brace in a string, at-rule with a parenthesised colon; declarations with custom property / SCSS variable "
        "names and values containing ; { } : in strings, url(a:b), nested parentheses; tight and loose punctuation; comments with "
        "delimiters; several top-level rules; nesting) with its ground truth and expected scan events. TLC checks at every position "
        "that the code's stack / pending-property machines for match() and balanced_outward() equal the stack-free contract, that "
        "the truth slices to the delimiters, and (ScanInv) that CssScan.tla - the scanner's ScanState machine transcribed - reads the stylesheet back to the recorded events; the contract for balanced_inward (first node in closing order, chain of first children) "
        "is computed per position as well. The real scan / match / balanced_outward / balanced_inward are called at every position.",
   note="Semicolon-terminated declarations (as quantified); inward is not judged between a value's end and its semicolon's end; "
        "a ';' inside parentheses is known finding F16, braces inside parentheses ('calc(1px - #{$x})') known finding F50 (both generated in one small instance, matched by a flag).",
   technique="TLA+ machines = contract at every position (TLC) + spec->code replay of every stylesheet and position",
   ref="5/C10")

CHECKS['C16'] = dict(
   text="Strings.tla enumerates every string over a 15-symbol HTML and a 14-symbol CSS punctuation alphabet (line feed, carriage "
        "return included) up to the bound (every prefix is a state) and simulates longer ones; Fragments.tla enumerates every "
        "sequence of up to three (thorough: four) document fragments (tags of ordinary, void and special elements, stray closing "
        "tags, comment / CDATA delimiters, rule / declaration / comment / string pieces); prefixes and one-character mutations of "
        "valid documents are added. For every "
        "string and every position from -1 to len+1 the real html scan / match / balanced_outward / balanced_inward (HTML and XML mode) / "
        "attributes and css scan / match / balanced_outward / balanced_inward / split_value are called; every result or raised "
        "exception is one event of a trace validated by Trace_ScanMonitor.tla: no call raises; every range satisfies 0 <= start <= end "
        "<= len; HTML tags start with '<', end with '>', carry their name right after '<' or '</', come in increasing non-overlapping "
        "order; match equals the first entry of balanced_outward; outward entries strictly contain each other and the position; inward "
        "entries lie inside each other; css delimiters lie in -1..len-1. Second layer: HtmlScanMC.tla / CssScanMC.tla run the transcribed scanners (HtmlScan.tla, CssScan.tla) and the three matcher functions as callback machines over every string of up to N fragments; TLC checks the same clauses on the model (ScanRanges, ScanShape, ScanOrder, AttrRanges, MatchIsFirstOutward, OutwardNested, InwardNested; ScanRanges, SplitRanges, ResultRanges) and the events, attributes / value split and answers at every position are compared with the code (diagnostic).",
   note="The specification is the acceptance monitor of the property plus the exhaustive input generator (length 3 quick / 4 thorough, "
        "12 simulated). A trace is judged up to its first rejected event.",
   technique="TLA+ input enumeration + scanner / matcher transcription with the property as invariants (TLC) + code->spec trace validation of every scanner/matcher result",
   ref="5/C16")

CHECKS['C17'] = dict(
   text="HtmlDoc.tla and CssDoc.tla (the document generators with ground truth of C09 / C10, extended by class attributes, empty and "
        "expression values) also define the contract of the action helpers on the truth table: per tag the selection ranges (name, each "
        "attribute from name to value end, unquoted value, each class token), per position the open tag, the next and the previous tag; "
        "per rule its body range and direct declarations with name, value, value tokens, before and after offsets; per position the "
        "innermost section and the next / previous item with full, value and value-token ranges. TLC checks that every range lies "
        "inside its tag / item, is non-empty, ordered and de-duplicated, that declaration offsets are monotone inside the body and "
        "that next / previous walk the same tag sequence in opposite directions. The real get_open_tag, select_item_html, "
        "get_css_section(properties=True) and select_item_css are called at every position of every generated document.",
   note="Not judged: get_open_tag inside a closing tag, select_item_css next strictly inside a declaration head; F16 / F50 as in C10. "
        "Bounds as C09 / C10.",
   technique="TLA+ contract on generated ground truth (TLC) + spec->code replay at every position",
   ref="5/C17")

CHECKS['C14'] = dict(
   text="AbbrResolve.tla takes every user snippet table over 2-3 keys whose definitions are a name, a name with an attribute, with text, "
        "with a child, or two siblings - over the keys themselves and a plain element, so self-reference, mutual recursion, chains "
        "and equal definition texts all occur - as an initial state and eight alias uses (plain, with child, class, text, repeater, "
        "self-closing mark, attribute + child, two top-level items) as steps. The machine is resolve_snippets() as recursive rewriting "
        "with the stack of definition texts (cycle guard), merge into every top-level node and re-attachment of children below the "
        "deepest last node; TLC checks DepthBound (stack <= number of distinct definitions), termination of every evaluation and "
        "AliasIsDefinition (alias = definition written in its place). Every (table, use) is expanded by the real code with the table as "
        "user snippets and compared on nesting, names, attributes, text and self-closing. Built-ins: every key of the html, xsl and pug "
        "tables is expanded as alias and as definition (plus class / attribute / text / repeater / child forms for single-element "
        "definitions) under the matching syntax, format on and off; outputs must be identical.",
   note="User-table part exhaustive over the stated shapes; built-in part exhaustive over the tables, with the real code as its own "
        "reference for the definition form (metamorphic).",
   technique="TLA+ rewriting machine with cycle guard (TLC, exhaustive over tables) + spec->code replay + alias/definition comparison",
   ref="5/C14")

CHECKS['C15'] = dict(
   text="IndentFormat.tla extends AbbrTree.tla (generator, stack machine, depth-number contract) with 15 decorated element forms (id, "
        "several classes, attribute lists, single- and multi-line text, self-closing, implicit names, bare div, div with only "
        "non-primary attributes) under > + ^ and *N and defines the line contract of pug, haml and slim (head = name#id.classes with "
        "div omitted when an id or class is present, % prefix, the syntax' attribute list and self-closing mark, text after a blank, "
        "multi-line text as | lines resp. padded lines with | one level deeper). TLC checks the tree invariants and that the element "
        "lines carry exactly the depths of the tree in document order, text lines one deeper than their element. Every abbreviation is "
        "expanded by the real code for the three syntaxes with three indent strings; the output split into (indent units, text) lines "
        "must equal the contract, and the depth listing must equal the tag listing of the real HTML output. Second layer: AbbrGrammar.tla "
        "generates every abbreviation of the documented grammar over a fragment set (ids, classes with blanks, quoted / boolean / implied "
        "/ unnamed attributes, text with fields, self-closed elements with children) and AbbrPrint.tla - the transcription of "
        "indent_format.py on the transcribed front half of the pipeline - prints the pug / haml / slim output, which is compared line by "
        "line with expand().",
   note="Bounded (3-5 tokens all forms, 7-9 tokens four forms, simulated to 30 tokens; grammar 4-5 fragments). Lines are compared after "
        "removing trailing blanks.",
   technique="TLA+ tree machine = contract plus line contract (TLC) + spec->code replay for pug/haml/slim",
   ref="5/C15")

CHECKS['C12'] = dict(
   text="FormatGen.tla (on AbbrTree.tla: generator, stack machine = depth contract) generates abbreviations over block, inline, implicit "
        "and self-closed elements with ids, classes (the comment triggers), attributes, single- and multi-line text, groups and "
        "repeaters, and the content listing every option row must print. Every abbreviation is expanded by the real code under eight "
        "option rows (html, xml, jsx, vue, xsl, svelte x format on/off, three indent strings, \\n and \\r\\n, baseIndent, inlineBreak "
        "0/2/3, formatLeafNode, formatSkip, formatForce, comments with default and custom before/after, self-closing styles). (a) The "
        "content read by the independent lexer (names, nesting, ids, classes, attributes, text, self-closing) must equal the contract "
        "under every row. (b) Every output is turned into a trace of line / open / close / self-close / text / comment events and "
        "validated by Trace_Format.tla, whose state is the stack of open elements with the indentation of their opening line: every "
        "line after the first starts with baseIndent plus one unit per open element, a closing tag on its own line is aligned with "
        "its opening tag's line, a comment is adjacent to an element carrying a trigger attribute. (c) AbbrGrammar.tla + AbbrPrint.tla: the HTML formatter with formatting on (should_format, get_indent, push_snippet) is transcribed; TLC checks the indentation and alignment clauses on the model's own output, read back by HtmlScan.tla (LayoutInv), for every abbreviation of the documented grammar over a fragment set; the real output must carry the same content and goes through the monitor; its bytes are compared with the model's (diagnostic).",
   note="Indentation clauses are judged for rows with format on and no generated name in formatSkip. Known findings F19 (multi-line "
        "text + children) and F27 (forced inner break on a leaf whose open tag is inside a line) are matched by clause + flags "
        "computed from the input. Bounded generator; trace judged up to the first rejected event.",
   technique="TLA+ generator with content contract (TLC) + spec->code content replay + code->spec trace validation of the layout",
   ref="5/C12")

CHECKS['C11'] = dict(
   text="Round trip (spec->code): Extract.tla builds every embedding left context (start of line, blanks, text, complete HTML tags with "
        "quoted and unquoted attributes, css context) . optional prefix . valid abbreviation (elements with attribute sets, text, "
        "groups, repeaters joined by > + ^; stylesheet abbreviations joined by +) . auto-inserted closing quote/brackets . tail, up to "
        "the bound and simulated beyond, with the expected record; it contains a faithful transcription of the backward scan and of the "
        "is_html() heuristic, TLC checks that this as-is machine extracts exactly the embedded abbreviation whenever the heuristic "
        "does not fire inside it, and the flag 'heuristic fires inside the abbreviation' travels with every vector. The real extract() "
        "is called on every vector with and without lookAhead. Consistency (code->spec): extract() is called on every line of "
        "Strings.tla (22-symbol alphabet) and of an editor corpus at every position -1..len+1 x {markup, stylesheet} x {prefix} x "
        "{lookAhead}; every result is validated by Trace_Extract.tla (range order, abbreviation = text between location and end, no "
        "dangling operator, prefix found at start, look-ahead only across one quote and closing brackets).",
   note="Known findings F17 (tag-end heuristic without '<') and F32 (comma in function arguments, stylesheet) are matched by flags "
        "the spec computes from the input. Abbreviations with an open bracket are judged with lookAhead only.",
   technique="TLA+ embedding model + as-is machine (TLC) + spec->code replay + code->spec trace validation",
   ref="5/C11")

NOT_YET = {}

def main():
    props = [json.loads(l) for l in open(os.path.join(HERE, 'properties.jsonl'))]
    checks = []
    na = []
    for p in props:
        pid = p['id']
        c = CHECKS.get(pid)
        if c is None:
            na.append({'property_id': pid, 'reason': NOT_YET.get(pid, 'check not built yet (work in progress, see DESIGN.md section 9); nothing is claimed for it')})
            continue
        checks.append({
            'property_id': pid,
            'quick_cmd': './check %s --tier quick' % pid,
            'thorough_cmd': './check %s --tier thorough' % pid,
            'evidence_file': '/verif/evidence/%s.json' % pid,
            'replay_cmd_template': './check %s --replay {path}' % pid,
            'engine': 'tlc',
            'level_claimed': {'category': 'model_checking', 'text': c['text'], 'design_ref': c['ref']},
            'level_note': c['note'],
            'technique': c['technique'],
        })
    m = {
        'version': 1,
        'setup_cmd': 'cd /verif && sh tools/setup.sh',
        'hooks': {
            'guard': 'EMMET_VERIF',
            'enable': 'no source hooks exist: every observation is made at the public API (return values, exceptions, user callbacks, caller-owned dicts); the guard name is reserved',
            'baseline_off_cmd': BASELINE,
            'source_commits': [],
            'add_only': True,
        },
        'engines': [{'name': 'tlc', 'path': '/verif/check', 'serves_properties': [c['property_id'] for c in checks],
                     'kind_free_text': 'TLA+ specifications under /verif/specs checked by TLC 1.8 (exhaustive BFS and -simulate); '
                                       'bound to the code by replaying TLC-generated behaviours into the real API and by validating '
                                       'recorded traces of the real API against Trace_*.tla'}],
        'checks': checks,
        'notes': 'See DESIGN.md. Exit codes of ./check: 0 held, 1 VIOLATION, 2 machinery failure. Known findings: known_findings.json.',
        'not_applicable': na,
    }
    with open(os.path.join(HERE, 'MANIFEST.json'), 'w') as fh:
        json.dump(m, fh, indent=1)
        fh.write('\n')

if __name__ == '__main__':
    main()
