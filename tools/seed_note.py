#!/usr/bin/env python3
"""tools/seed_note.py <ID>-<X> <text>: record in the seed's meta file how the generators were extended after the quick tier missed it"""
import json, sys
p = '/verif/seeded/%s/meta.json' % sys.argv[1]
m = json.load(open(p))
m['strengthening'] = sys.argv[2]
json.dump(m, open(p, 'w'), indent=1)
print(m.get('first_quick_run'), '->', m['detected_by'])
