#!/bin/sh
# tools/seedall.sh [parallel] : re-confirms every seeded change against the current /repo HEAD and re-runs its check (quick tier);
# one line per seed in /tmp/seedall/summary.txt, full output in /tmp/seedall/<seed>.txt
P=${1:-3}
mkdir -p /tmp/seedall
rm -f /tmp/seedall/summary.txt
ls /verif/seeded | xargs -P $P -I{} sh -c '
  id=$(echo {} | cut -d- -f1); x=$(echo {} | cut -d- -f2)
  timeout 1500 python3 /verif/tools/seedcheck.py $id $x --keep > /tmp/seedall/{}.txt 2>&1
  echo "{} $(grep -o "PATCH DOES NOT APPLY\|DETECTED\|not detected" /tmp/seedall/{}.txt | head -1) | $(grep "^tests:" /tmp/seedall/{}.txt)" >> /tmp/seedall/summary.txt'
