#!/usr/bin/env python3
"""prints the markdown table of DESIGN.md I.8 from seeded/*/meta.json"""
import glob, json, os, re

rows = []
for p in sorted(glob.glob(os.path.join(os.path.dirname(__file__), '..', 'seeded', '*', 'meta.json'))):
    name = os.path.basename(os.path.dirname(p))
    m = json.load(open(p))
    first = m.get('first_quick_run', '?')
    if first.startswith('not detected'):
        first = 'missed' + first[len('not detected'):].replace(';', ':', 1)
    elif first == 'detected':
        first = 'caught'
    if first == 'missed' and m.get('strengthening'):
        first = 'missed -> ' + m['strengthening']
    d = m.get('detected_by', {}).get('quick', {})
    clause = ''
    mm = re.search(r'violation: ([^:]+(?:: [a-z-]+)?) ::', d.get('last_lines', ''))
    if mm:
        clause = mm.group(1)
    now = 'superseded' if m.get('superseded') else ('yes' if d.get('detected') else 'NO')
    summ = ' '.join(m.get('summary', '').split())
    summ = summ[:150].replace('|', '/')
    rows.append('| %s | %s | %s | %s (%s) |' % (name, summ, first.replace('|', '/'), now, clause))
print('| seed | change (summary, truncated) | first quick run | caught now (clause) |')
print('|------|------------------|-----------------|--------------------|')
print('\n'.join(rows))
