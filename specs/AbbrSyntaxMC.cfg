SPECIFICATION Spec
INVARIANT TilingInv
INVARIANT Dump
CHECK_DEADLOCK FALSE
