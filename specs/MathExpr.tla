------------------------------ MODULE MathExpr ------------------------------
(* C19 - emmet.math_expression.evaluate                                      *)
(*                                                                           *)
(* Generator : Mode = "tokens"  online generator of grammatical expressions  *)
(*             Mode = "chars"   every string over Alphabet up to MaxLen      *)
(* Machine   : the code's algorithm, char level: parse() with its expected-  *)
(*             token set and +-10 priority per parenthesis, consume_number,  *)
(*             order_tokens() reduction loop, RPN evaluate().                *)
(* Contract  : an independent recursive-descent recogniser/evaluator over    *)
(*             the characters with exact rational arithmetic.                *)
(* TLC checks Machine = Contract on every generated string and prints one    *)
(* vector per string which the harness replays into the real evaluate().     *)
EXTENDS Common, Json

CONSTANTS Mode,        \* "tokens" | "chars"
          MaxLen,      \* tokens: max number of tokens; chars: max string length
          Blanks,      \* tokens mode: also generate a blank in front of tokens
          Alphabet,    \* chars mode: the characters strings are made of
          NumSet,      \* tokens mode: the number literals
          Deviations   \* subset of {"unaryReduce", "negPriority", "adjacentParens", "nullaryInternal"}: as-is behaviours of
                       \* the unrepaired code, {} in every claimed configuration

VARIABLES s, ntok, depth, expect
vars == <<s, ntok, depth, expect>>

Nums == NumSet
Bin == {"+", "-", "*", "/", "\\"}

Init == s = "" /\ ntok = 0 /\ depth = 0 /\ expect = "operand"

Sp == IF Blanks THEN {"", " "} ELSE {""}
Add(t) == /\ ntok < MaxLen
          /\ \E b \in Sp : s' = s \o b \o t
          /\ ntok' = ntok + 1
TNum  == expect = "operand" /\ (\E n \in Nums : Add(n)) /\ expect' = "operator" /\ UNCHANGED depth
TSign == expect = "operand" /\ (\E c \in {"+", "-"} : Add(c)) /\ UNCHANGED <<depth, expect>>
TLPar == expect = "operand" /\ Add("(") /\ depth' = depth + 1 /\ UNCHANGED expect
TRPar == expect = "operator" /\ depth > 0 /\ Add(")") /\ depth' = depth - 1 /\ UNCHANGED expect
TOp   == expect = "operator" /\ (\E o \in Bin : Add(o)) /\ expect' = "operand" /\ UNCHANGED depth
Char  == Len(s) < MaxLen /\ (\E c \in Alphabet : s' = s \o Ch(c)) /\ UNCHANGED <<ntok, depth, expect>>

Next == IF Mode = "tokens" THEN TNum \/ TSign \/ TLPar \/ TRPar \/ TOp ELSE Char
Spec == Init /\ [][Next]_vars

Complete == IF Mode = "tokens" THEN expect = "operator" /\ depth = 0 ELSE TRUE

(* ---------------------------------------------------------------- values *)
ZDE == <<0, 0>>                       \* marker: a division by zero happened
RAdd(a, b) == IF a = ZDE \/ b = ZDE THEN ZDE ELSE Norm(a[1] * b[2] + b[1] * a[2], a[2] * b[2])
RSub(a, b) == IF a = ZDE \/ b = ZDE THEN ZDE ELSE Norm(a[1] * b[2] - b[1] * a[2], a[2] * b[2])
RMul(a, b) == IF a = ZDE \/ b = ZDE THEN ZDE ELSE Norm(a[1] * b[1], a[2] * b[2])
RDiv(a, b) == IF a = ZDE \/ b = ZDE \/ b[1] = 0 THEN ZDE ELSE Norm(a[1] * b[2], a[2] * b[1])
RFloorDiv(a, b) == LET q == RDiv(a, b) IN IF q = ZDE THEN ZDE ELSE <<q[1] \div q[2], 1>>   \* \div floors
RNeg(a) == IF a = ZDE THEN ZDE ELSE <<-a[1], a[2]>>
Apply(o, a, b) == CASE o = "+" -> RAdd(a, b) [] o = "-" -> RSub(a, b) [] o = "*" -> RMul(a, b)
                    [] o = "/" -> RDiv(a, b) [] o = "\\" -> RFloorDiv(a, b)
\* a float computation is exact when every intermediate value is a small dyadic rational
Dyadic(v) == v # ZDE /\ v[2] \in {1, 2, 4, 8, 16, 32, 64}

(* value of a number literal digits[.digits] | .digits given as a string *)
RECURSIVE DotPos(_, _)
DotPos(t, i) == IF i > Len(t) THEN 0 ELSE IF At(t, i) = "." THEN i ELSE DotPos(t, i + 1)
NumVal(t) == LET d == DotPos(t, 1) IN
             IF d = 0 THEN <<NatOf(t, 0), 1>>
             ELSE LET ip == SubSeq(t, 1, d - 1)
                      fp == SubSeq(t, d + 1, Len(t))
                  IN Norm(NatOf(ip, 0) * Pow10(Len(fp)) + NatOf(fp, 0), Pow10(Len(fp)))

(* --------------------------------------------------------------- contract *)
(* positions are 1-based indices into s; a result is                         *)
(*   [ok, v, p, scope, exact]: ok = recognised so far, p = next position,    *)
(*   scope = no unparenthesised chain mixes \ with * or /,                   *)
(*   dy    = every value in the subtree is a small dyadic rational, i.e. the   *)
(*           floating-point computation of the code is exact,                *)
(*   exact = integer divisions and zero divisors only ever saw exact operands *)
(*           (otherwise floor() / the zero test of a float run is fragile and *)
(*           the harness checks the outcome class only)                       *)
C(i) == At(s, i)
RECURSIVE WsEnd(_)
WsEnd(i) == IF IsWhite(C(i)) THEN WsEnd(i + 1) ELSE i
RECURSIVE DigEnd(_)
DigEnd(i) == IF IsDigit(C(i)) THEN DigEnd(i + 1) ELSE i
FAIL == [ok |-> FALSE, v |-> <<0, 1>>, p |-> 0, scope |-> TRUE, exact |-> TRUE, dy |-> TRUE]
Leaf(t, k) == LET v == NumVal(t) IN [ok |-> TRUE, v |-> v, p |-> k, scope |-> TRUE, exact |-> TRUE, dy |-> Dyadic(v)]
CNumber(i, L) ==                     \* longest literal starting at i, or FAIL; L: also read "1." as the number 1 (see Silent)
    IF C(i) = "." THEN LET k == DigEnd(i + 1) IN
                       IF k > i + 1 THEN Leaf(SubSeq(s, i, k - 1), k) ELSE FAIL
    ELSE LET k == DigEnd(i) IN
         IF k = i THEN FAIL
         ELSE IF C(k) = "." THEN LET k2 == DigEnd(k + 1) IN
                                 IF k2 > k + 1 THEN Leaf(SubSeq(s, i, k2 - 1), k2)
                                 ELSE IF L THEN Leaf(SubSeq(s, i, k - 1), k + 1) ELSE FAIL
         ELSE Leaf(SubSeq(s, i, k - 1), k)

RECURSIVE CExpr(_, _), CExprTail(_, _, _), CTerm(_, _), CTermTail(_, _, _, _, _), CUnary(_, _)
CUnary(i0, L) == LET i == WsEnd(i0) IN
    IF C(i) = "-" THEN LET r == CUnary(i + 1, L) IN IF r.ok THEN [r EXCEPT !.v = RNeg(r.v)] ELSE FAIL
    ELSE IF C(i) = "+" THEN CUnary(i + 1, L)
    ELSE IF C(i) = "(" THEN LET r == CExpr(i + 1, L) IN
                            IF r.ok /\ C(WsEnd(r.p)) = ")" THEN [r EXCEPT !.p = WsEnd(r.p) + 1] ELSE FAIL
    ELSE CNumber(i, L)
CTermTail(acc, i0, hasInt, hasMul, L) == LET i == WsEnd(i0) IN
    IF acc.ok /\ C(i) \in {"*", "/", "\\"}
    THEN LET r == CUnary(i + 1, L)
             hi == hasInt \/ C(i) = "\\"
             hm == hasMul \/ C(i) \in {"*", "/"}
         IN IF ~r.ok THEN FAIL
            ELSE LET res == Apply(C(i), acc.v, r.v) IN
                 CTermTail([ok |-> TRUE, v |-> res, p |-> r.p,
                            scope |-> acc.scope /\ r.scope /\ ~(hi /\ hm),
                            dy |-> acc.dy /\ r.dy /\ (res = ZDE \/ Dyadic(res)),
                            exact |-> /\ acc.exact /\ r.exact
                                      /\ (C(i) = "\\" => acc.dy /\ r.dy)
                                      /\ (C(i) \in {"/", "\\"} /\ r.v[1] = 0 => r.dy)],
                           r.p, hi, hm, L)
    ELSE acc
CTerm(i, L) == LET r == CUnary(i, L) IN IF r.ok THEN CTermTail(r, r.p, FALSE, FALSE, L) ELSE FAIL
CExprTail(acc, i0, L) == LET i == WsEnd(i0) IN
    IF acc.ok /\ C(i) \in {"+", "-"}
    THEN LET r == CTerm(i + 1, L) IN
         IF ~r.ok THEN FAIL
         ELSE LET res == Apply(C(i), acc.v, r.v) IN
              CExprTail([ok |-> TRUE, v |-> res, p |-> r.p, scope |-> acc.scope /\ r.scope,
                         dy |-> acc.dy /\ r.dy /\ (res = ZDE \/ Dyadic(res)),
                         exact |-> acc.exact /\ r.exact], r.p, L)
    ELSE acc
CExpr(i, L) == LET r == CTerm(i, L) IN IF r.ok THEN CExprTail(r, r.p, L) ELSE FAIL

\* outcome classes: "val" (with value), "zde", "perr" (the module's parse error), "internal"
ContractOf(L) == LET r == CExpr(1, L) IN
            IF r.ok /\ r.p = Len(s) + 1
            THEN [k |-> IF r.v = ZDE THEN "zde" ELSE "val", v |-> r.v, scope |-> r.scope, exact |-> r.exact]
            ELSE [k |-> "perr", v |-> <<0, 1>>, scope |-> TRUE, exact |-> TRUE]
Contract == ContractOf(FALSE)
\* the reading in which a literal "1." is the number 1: inputs with such a literal may either raise the parse error or have this value
Lenient == ContractOf(TRUE)

(* Inputs on which the statement does not determine the outcome: the empty    *)
(* string (evaluate returns None), trailing blanks (the reference raises),    *)
(* a literal of the form "1." (accepted by float(), refused by the scanner).  *)
RECURSIVE HasDigitDot(_)
HasDigitDot(i) == IF i > Len(s) THEN FALSE
                  ELSE (IsDigit(C(i)) /\ C(i + 1) = "." /\ ~IsDigit(C(i + 2))) \/ HasDigitDot(i + 1)
Silent == s = "" \/ IsWhite(C(Len(s))) \/ HasDigitDot(1)

(* ---------------------------------------------------------------- machine *)
(* parse(): 0-based scanner position i; expected-token set as a set of tags   *)
PRIMARY == {"P", "L", "S"}
PERR == [err |-> TRUE, toks |-> <<>>]
MConsumeNumber(i) ==                  \* end position (0-based, exclusive) or -1
    LET j == i + 1 IN                 \* 1-based index of the char at scanner.pos
    IF C(j) = "." THEN (LET k == DigEnd(j + 1) IN IF k > j + 1 THEN k - 1 ELSE -1)
    ELSE LET k == DigEnd(j) IN
         IF k = j THEN -1
         ELSE IF C(k) = "." THEN (LET k2 == DigEnd(k + 1) IN IF k2 > k + 1 THEN k2 - 1 ELSE -1)
         ELSE k - 1
BinPrio(o, prio) == prio + (IF o = "*" THEN 1 ELSE IF o \in {"/", "\\"} THEN 2 ELSE 0)
RECURSIVE MParse(_, _, _, _)
MParse(i0, prio, expected, acc) ==
    IF i0 >= Len(s)
    THEN IF prio >= 10 THEN PERR                      \* unmatched "("
         ELSE [err |-> FALSE, toks |-> acc]
    ELSE LET i == WsEnd(i0 + 1) - 1           \* eat_while(is_white_space)
             n == MConsumeNumber(i)
             ch == C(i + 1)
         IN IF n >= 0
            THEN IF "P" \notin expected THEN PERR
                 ELSE MParse(n, prio, {"O", "R"}, Append(acc, [k |-> "num", v |-> SubSeq(s, i + 1, n), pr |-> 0]))
            ELSE IF ch \in Bin
            THEN IF ch \in {"+", "-"} /\ "S" \in expected
                 THEN MParse(i + 1, prio, PRIMARY,
                             IF ch = "-" THEN Append(acc, [k |-> "op1", v |-> ch, pr |-> prio + 2]) ELSE acc)
                 ELSE IF "O" \notin expected THEN PERR
                 ELSE MParse(i + 1, prio, PRIMARY, Append(acc, [k |-> "op2", v |-> ch, pr |-> BinPrio(ch, prio)]))
            ELSE IF ch = "("
            THEN IF "L" \notin expected THEN PERR
                 ELSE MParse(i + 1, prio + 10, PRIMARY \cup {"N"}, acc)
            ELSE IF ch = ")"
            THEN IF prio < 10 /\ "negPriority" \notin Deviations THEN PERR      \* unmatched ")"
                 ELSE IF "N" \in expected
                 THEN MParse(i + 1, prio - 10, {"O", "R"} \cup (IF "adjacentParens" \in Deviations THEN {"L"} ELSE {}),
                             Append(acc, [k |-> "null", v |-> "", pr |-> 0]))
                 ELSE IF "R" \notin expected THEN PERR
                 ELSE MParse(i + 1, prio - 10, {"O", "R"} \cup (IF "adjacentParens" \in Deviations THEN {"L"} ELSE {}), acc)
            ELSE PERR                              \* unknown character (also: only blanks were left)

RECURSIVE Reduce(_, _, _)
Reduce(t, operators, operands) ==
    IF operators # <<>> /\ t.pr <= Last(operators).pr
    THEN Reduce(t, Front(operators), Append(operands, Last(operators)))
    ELSE [ops |-> operators, opnds |-> operands]
Rev(sq) == [i \in 1..Len(sq) |-> sq[Len(sq) + 1 - i]]
RECURSIVE Order(_, _, _, _, _)
Order(pt, i, operators, operands, nops) ==
    IF i > Len(pt)
    THEN IF nops + 1 = Len(operands) + Len(operators) THEN [err |-> FALSE, q |-> operands \o Rev(operators)]
         ELSE [err |-> TRUE, q |-> <<>>]                       \* "Parity"
    ELSE LET t == pt[i] IN
         IF t.k = "num" THEN Order(pt, i + 1, operators, Append(operands, t), nops)
         ELSE LET n2 == nops + (IF t.k = "op1" THEN 1 ELSE 2) IN
              IF t.k = "op1" /\ "unaryReduce" \notin Deviations
              THEN Order(pt, i + 1, Append(operators, t), operands, n2)     \* a prefix operator never reduces
              ELSE LET r == Reduce(t, operators, operands) IN Order(pt, i + 1, Append(r.ops, t), r.opnds, n2)

RECURSIVE RPN(_, _, _)
INTERNAL == [k |-> "internal", v |-> <<0, 1>>]
MPERR == [k |-> "perr", v |-> <<0, 1>>]
RPN(q, i, st) ==
    IF i > Len(q) THEN (IF Len(st) = 1 THEN [k |-> IF st[1] = ZDE THEN "zde" ELSE "val", v |-> st[1]]
                        ELSE IF "nullaryInternal" \in Deviations THEN INTERNAL ELSE MPERR)
    ELSE LET t == q[i] IN
         IF t.k = "num" THEN RPN(q, i + 1, Append(st, NumVal(t.v)))
         ELSE IF t.k = "op1" THEN (IF Len(st) < 1 THEN INTERNAL ELSE RPN(q, i + 1, Append(Front(st), RNeg(Last(st)))))
         ELSE IF t.k = "op2" THEN (IF Len(st) < 2 THEN INTERNAL
                                   ELSE LET v == Apply(t.v, st[Len(st) - 1], st[Len(st)]) IN
                                        \* Python raises ZeroDivisionError at this very step
                                        IF v = ZDE THEN [k |-> "zde", v |-> ZDE]
                                        ELSE RPN(q, i + 1, Append(SubSeq(st, 1, Len(st) - 2), v)))
         ELSE IF "nullaryInternal" \in Deviations THEN INTERNAL ELSE MPERR

Machine == LET p == MParse(0, 0, PRIMARY, <<>>) IN
           IF p.err THEN MPERR
           ELSE LET o == Order(p.toks, 1, <<>>, <<>>, 0) IN
                IF o.err THEN MPERR ELSE RPN(o.q, 1, <<>>)

(* -------------------------------------------------------------- properties *)
InScope == Contract.scope /\ ~Silent
\* the machine computes what the contract says, for every generated string
ValueInv == (Complete /\ InScope) =>
              LET m == Machine c == Contract IN
              /\ m.k = c.k
              /\ (c.k = "val" => m.v = c.v)
\* the machine never leaves the module's own error classes (C19 "and nothing else")
NoInternal == Complete => Machine.k # "internal"

Dump == Complete =>
          LET c == Contract IN
          PrintT(<<"VEC", ToJson([e |-> s, k |-> c.k, v |-> c.v, scope |-> c.scope, exact |-> c.exact, silent |-> Silent,
                                   trailingBlank |-> (s # "" /\ IsWhite(C(Len(s)))), lk |-> Lenient.k, lv |-> Lenient.v, lexact |-> Lenient.exact,
                                   lscope |-> Lenient.scope])>>)
=============================================================================
