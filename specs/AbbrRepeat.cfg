SPECIFICATION Spec
INVARIANT I1_UnlimitedIsUnrolling
INVARIANT I1b_MachineIsContract
INVARIANT I2_Budget
INVARIANT I3_NoLateCopy
INVARIANT I4_AtLeastOnce
INVARIANT I5_Pad
INVARIANT StackDiscipline
INVARIANT Dump
CHECK_DEADLOCK FALSE
