SPECIFICATION Spec
INVARIANT ValueInv
INVARIANT NoInternal
INVARIANT Dump
CHECK_DEADLOCK FALSE
