SPECIFICATION Spec
INVARIANT RoundTrip
INVARIANT Tiling
INVARIANT ColourPreserved
INVARIANT Dump
CHECK_DEADLOCK FALSE
CONSTANTS
  IsValue = FALSE
