SPECIFICATION Spec
INVARIANT EmbeddingInv
INVARIANT Dump
CHECK_DEADLOCK FALSE
