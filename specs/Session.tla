------------------------------- MODULE Session -------------------------------
(* C08 - expansion is a pure function of its arguments.                      *)
(*                                                                           *)
(* The only state of the library that survives a call:                       *)
(*   userText[c]  the 'text' entry of caller object c (removed while         *)
(*                snippets are resolved, put back afterwards)                *)
(*   cache[k]     the caller's cache dict k: which snippet table the stored  *)
(*                stylesheet snippets were built from, and whether a unit    *)
(*                has been written into the stored tokens (the stored list   *)
(*                is the whole table: the scope of the caller's context -    *)
(*                @@section / @@property - is applied to it per call)        *)
(*   live         per-call objects still reachable from module-level state   *)
(* One action per step of markup.parse() / stylesheet.parse().  The as-is    *)
(* behaviours of the unrepaired code are named deviations, switched off in   *)
(* every claimed configuration and switched on one at a time by the spec     *)
(* self-test, where TLC must report the corresponding invariant.             *)
EXTENDS Common, Json

CONSTANTS Deviations,   \* subset of {"noRestore", "addsKey", "bakeUnits", "staleTable", "leakBem", "scopeInCache", "markupCache", "dropFalsyText"}
          MaxCalls

(* caller-owned objects: content is constant, only the parts above change.
   kind "dict" is a plain dict passed to expand(), "Config" a Config instance created once and reused *)
Objs == {"m1", "m2", "m3", "m4", "m5", "m6", "m7", "m8", "m9", "m10", "m11", "s1", "s2", "s3", "s4", "s5", "s6", "s7", "s8", "s9", "s10"}
Content ==
  [ m1 |-> [type |-> "markup", kind |-> "dict",   text |-> "T",      table |-> "MS1", opt |-> "A", cache |-> "none", bem |-> FALSE, scope |-> "none"],
    m2 |-> [type |-> "markup", kind |-> "dict",   text |-> "absent", table |-> "MS0", opt |-> "A", cache |-> "none", bem |-> TRUE , scope |-> "none"],
    m3 |-> [type |-> "markup", kind |-> "Config", text |-> "T",      table |-> "MS1", opt |-> "A", cache |-> "none", bem |-> FALSE, scope |-> "none"],
    m4 |-> [type |-> "markup", kind |-> "dict",   text |-> "absent", table |-> "MS0", opt |-> "A", cache |-> "none", bem |-> FALSE, scope |-> "none"],
    m5 |-> [type |-> "markup", kind |-> "dict",   text |-> "T",      table |-> "MS0", opt |-> "B", cache |-> "none", bem |-> TRUE , scope |-> "none"],
    m6 |-> [type |-> "markup", kind |-> "dict",   text |-> "absent", table |-> "MS0", opt |-> "C", cache |-> "none", bem |-> FALSE, scope |-> "none"],
    m7 |-> [type |-> "markup", kind |-> "dict",   text |-> "absent", table |-> "MS0", opt |-> "D", cache |-> "none", bem |-> FALSE, scope |-> "none"],    \* jsx with a dict-valued option (markup.attributes)
    m8 |-> [type |-> "markup", kind |-> "dict",   text |-> "absent", table |-> "MS0", opt |-> "E", cache |-> "none", bem |-> FALSE, scope |-> "none"],    \* jsx without it
    \* two markup callers with different variables that pass the same cache dict (markup.parse() keeps nothing in it), and one whose text is present but empty
    m9 |-> [type |-> "markup", kind |-> "dict",   text |-> "absent", table |-> "MS0", opt |-> "F", cache |-> "k3",   bem |-> FALSE, scope |-> "none"],
    m10 |-> [type |-> "markup", kind |-> "dict",  text |-> "absent", table |-> "MS0", opt |-> "G", cache |-> "k3",   bem |-> FALSE, scope |-> "none"],
    m11 |-> [type |-> "markup", kind |-> "dict",  text |-> "E",      table |-> "MS0", opt |-> "A", cache |-> "none", bem |-> FALSE, scope |-> "none"],
    s1 |-> [type |-> "css",    kind |-> "dict",   text |-> "absent", table |-> "S0",  opt |-> "A", cache |-> "k1",   bem |-> FALSE, scope |-> "none"],
    s2 |-> [type |-> "css",    kind |-> "dict",   text |-> "absent", table |-> "S0",  opt |-> "B", cache |-> "k1",   bem |-> FALSE, scope |-> "none"],
    s3 |-> [type |-> "css",    kind |-> "dict",   text |-> "absent", table |-> "S1",  opt |-> "A", cache |-> "k1",   bem |-> FALSE, scope |-> "none"],
    s4 |-> [type |-> "css",    kind |-> "dict",   text |-> "absent", table |-> "S0",  opt |-> "B", cache |-> "none", bem |-> FALSE, scope |-> "none"],
    s5 |-> [type |-> "css",    kind |-> "Config", text |-> "absent", table |-> "S0",  opt |-> "A", cache |-> "k2",   bem |-> FALSE, scope |-> "none"],
    s6 |-> [type |-> "css",    kind |-> "dict",   text |-> "absent", table |-> "S2",  opt |-> "B", cache |-> "k1",   bem |-> FALSE, scope |-> "none"],
    s7 |-> [type |-> "css",    kind |-> "dict",   text |-> "absent", table |-> "S0",  opt |-> "A", cache |-> "k1",   bem |-> FALSE, scope |-> "section"],
    s8 |-> [type |-> "css",    kind |-> "dict",   text |-> "absent", table |-> "S0",  opt |-> "A", cache |-> "k1",   bem |-> FALSE, scope |-> "property"],
    s9 |-> [type |-> "css",    kind |-> "dict",   text |-> "absent", table |-> "S2",  opt |-> "D", cache |-> "none", bem |-> FALSE, scope |-> "none"],     \* a dict-valued option (stylesheet.unitAliases)
    s10 |-> [type |-> "css",   kind |-> "dict",   text |-> "absent", table |-> "S3",  opt |-> "B", cache |-> "k1",   bem |-> FALSE, scope |-> "none"] ]    \* S3: a table that cannot be converted - every call raises
Caches == {"k1", "k2", "k3"}
MarkupAbbrs == {"ok", "wrap", "badparse", "badsnippet", "bem", "var", "empty"}      \* "empty": the empty abbreviation (no node at all) - every step is still taken          \* "var": a snippet that reads a variable of the configuration      \* "badsnippet" fails while snippets are resolved iff the table is MS1
CssAbbrs == {"num", "tab", "plain", "raw", "fnarg", "fnbare", "alias", "badparse"}                     \* "num": a snippet supplies a number that takes the caller's unit; "raw": a raw snippet (section scope); "fnarg" / "fnbare": a function keyword of a snippet with and without arguments

VARIABLES userText, cache, live, pc, cur, seenText, results, ncalls
vars == <<userText, cache, live, pc, cur, seenText, results, ncalls>>

Init == /\ userText = [c \in Objs |-> Content[c].text]
        /\ cache = [k \in Caches |-> [table |-> "none", baked |-> "none", scope |-> "none"]]
        /\ live = 0 /\ pc = "idle" /\ cur = <<>> /\ seenText = "absent" /\ results = <<>> /\ ncalls = 0

Dev(d) == d \in Deviations
PERR == [kind |-> "error", text |-> "", table |-> "", opt |-> "", scope |-> ""]
C == Content[cur[1]]
Done(res) == /\ results' = Append(results, [c |-> cur[1], ab |-> cur[2], res |-> res])
             /\ pc' = "idle" /\ cur' = <<>>

Begin(c, ab) == /\ pc = "idle" /\ ncalls < MaxCalls /\ ncalls' = ncalls + 1
                /\ (Content[c].type = "markup" => ab \in MarkupAbbrs)
                /\ (Content[c].type = "css" => ab \in CssAbbrs)
                /\ cur' = <<c, ab>> /\ pc' = "begun" /\ seenText' = userText[c]
                /\ UNCHANGED <<userText, cache, live, results>>

(* ------------------------------------------------------------ markup.parse() *)
ParseAbbr == /\ pc = "begun" /\ C.type = "markup"
             /\ IF cur[2] = "badparse" THEN Done(PERR) /\ UNCHANGED <<userText, cache, live, seenText, ncalls>>
                ELSE pc' = "parsed" /\ UNCHANGED <<userText, cache, live, cur, seenText, results, ncalls>>
RemoveText == /\ pc = "parsed"
              /\ userText' = IF seenText = "T" THEN [userText EXCEPT ![cur[1]] = "None"]
                              ELSE IF seenText = "E" /\ Dev("dropFalsyText") THEN [userText EXCEPT ![cur[1]] = "absent"]      \* an empty text is not touched
                              ELSE userText
              /\ pc' = "removed" /\ UNCHANGED <<cache, live, cur, seenText, results, ncalls>>
ResolveSnippets ==
    /\ pc = "removed"
    /\ IF cur[2] = "badsnippet" /\ C.table = "MS1"
       THEN /\ Done(PERR)                           \* the finally block restores on the way out
            /\ userText' = IF Dev("noRestore") THEN userText ELSE [userText EXCEPT ![cur[1]] = seenText]
            /\ UNCHANGED <<cache, live, seenText, ncalls>>
       ELSE /\ pc' = "resolved"
            /\ cache' = IF Dev("markupCache") /\ C.cache # "none" /\ cache[C.cache].baked = "none" THEN [cache EXCEPT ![C.cache].baked = C.opt] ELSE cache
            /\ UNCHANGED <<userText, live, cur, seenText, results, ncalls>>
Transform == /\ pc = "resolved"
             /\ live' = IF C.bem /\ cur[2] = "bem" /\ Dev("leakBem") THEN live + 1 ELSE live
             /\ pc' = "transformed" /\ UNCHANGED <<userText, cache, cur, seenText, results, ncalls>>
RestoreText == /\ pc = "transformed"
               /\ userText' = IF seenText = "absent"
                              THEN (IF Dev("addsKey") THEN [userText EXCEPT ![cur[1]] = "None"] ELSE userText)
                              ELSE IF seenText = "E" THEN userText                 \* restored only if it was removed
                              ELSE [userText EXCEPT ![cur[1]] = seenText]
               /\ Done([kind |-> "markup", text |-> seenText, table |-> C.table, scope |-> "none",
                        opt |-> IF Dev("markupCache") /\ C.cache # "none" /\ cache[C.cache].baked # "none" THEN cache[C.cache].baked ELSE C.opt])
               /\ UNCHANGED <<cache, live, seenText, ncalls>>

(* -------------------------------------------------------- stylesheet.parse() *)
CacheLookup == /\ pc = "begun" /\ C.type = "css"
               /\ IF C.table = "S3"
                  THEN Done(PERR) /\ UNCHANGED <<userText, cache, live, seenText, ncalls>>          \* convert_snippets() raises before the cache is written
                  ELSE IF cur[2] = "badparse"
                  THEN \* snippets are converted (and cached) before the abbreviation is parsed
                       /\ cache' = IF C.cache # "none" /\ (cache[C.cache].table = "none" \/ (~Dev("staleTable") /\ cache[C.cache].table # C.table))
                                   THEN [cache EXCEPT ![C.cache] = [table |-> C.table, baked |-> "none", scope |-> C.scope]] ELSE cache
                       /\ Done(PERR) /\ UNCHANGED <<userText, live, seenText, ncalls>>
                  ELSE /\ cache' = IF C.cache # "none" /\ (cache[C.cache].table = "none" \/ (~Dev("staleTable") /\ cache[C.cache].table # C.table))
                                   THEN [cache EXCEPT ![C.cache] = [table |-> C.table, baked |-> "none", scope |-> C.scope]] ELSE cache
                       /\ pc' = "cached" /\ UNCHANGED <<userText, live, cur, seenText, results, ncalls>>
ResolveNode == /\ pc = "cached"
               /\ LET e == IF C.cache = "none" THEN [table |-> C.table, baked |-> "none", scope |-> C.scope] ELSE cache[C.cache]
                      unit == IF cur[2] = "num" /\ e.baked # "none" THEN e.baked ELSE C.opt
                  IN /\ cache' = IF C.cache # "none" /\ cur[2] = "num" /\ Dev("bakeUnits") /\ e.baked = "none"
                                 THEN [cache EXCEPT ![C.cache].baked = C.opt] ELSE cache
                     \* the scope filter runs on the list taken from the cache, per call (deviation: it ran before the list was stored)
                     /\ Done([kind |-> "css", text |-> "absent", table |-> e.table, opt |-> unit,
                              scope |-> IF Dev("scopeInCache") THEN e.scope ELSE C.scope])
               /\ UNCHANGED <<userText, live, seenText, ncalls>>

Next == \/ \E c \in Objs, ab \in MarkupAbbrs \cup CssAbbrs : Begin(c, ab)
        \/ ParseAbbr \/ RemoveText \/ ResolveSnippets \/ Transform \/ RestoreText \/ CacheLookup \/ ResolveNode
Spec == Init /\ [][Next]_vars

(* ------------------------------------------------------------- the property *)
\* what a call returns in a fresh interpreter: a function of the object's constant content and the abbreviation only
Pure(c, ab) == IF ab = "badparse" \/ (ab = "badsnippet" /\ Content[c].table = "MS1") \/ Content[c].table = "S3" THEN PERR
               ELSE IF Content[c].type = "markup"
                    THEN [kind |-> "markup", text |-> Content[c].text, table |-> Content[c].table, opt |-> Content[c].opt, scope |-> "none"]
                    ELSE [kind |-> "css", text |-> "absent", table |-> Content[c].table, opt |-> Content[c].opt, scope |-> Content[c].scope]
CallerConfigStable == pc = "idle" => \A c \in Objs : userText[c] = Content[c].text
ResultPure == \A i \in 1..Len(results) : results[i].res = Pure(results[i].c, results[i].ab)
NoRetention == pc = "idle" => live = 0

History == [i \in 1..Len(results) |-> <<results[i].c, results[i].ab>>]
Dump == (pc = "idle" /\ ncalls >= 1) => PrintT(<<"VEC", ToJson([h |-> History])>>)
=============================================================================
