----------------------------- MODULE CssScanMC -----------------------------
(* All-strings instance of the CSS matcher: every sequence of up to MaxFrag  *)
(* fragments (single characters and pieces of rules), one per step.  The     *)
(* scanner transcription CssScan.tla turns the string into token events (the *)
(* variable evs); on the events run match(), balanced_outward() and          *)
(* balanced_inward() as the code's callback machines (stack of open rules,   *)
(* pending property name, early exit, first-child chain with the end of a    *)
(* property child moved to its semicolon; the range pool of the code is      *)
(* transparent and not modelled), at every position from -1 to len + 1.      *)
(* TLC checks what C16 says, on the model, for every such string             *)
(* (ScanRanges, SplitRanges, ResultRanges) and Dump prints events, the value *)
(* split and the three answers per position; the harness compares every one  *)
(* of them with the real code.                                               *)
EXTENDS CssScan, Json
CONSTANTS Frags, MaxFrag
VARIABLES s, n, evs
vars == <<s, n, evs>>
Init == s = "" /\ n = 0 /\ evs = <<>>
Next == n < MaxFrag /\ \E f \in Frags : s' = s \o Subst(f) /\ n' = n + 1 /\ evs' = CScan(s')
Spec == Init /\ [][Next]_vars

R(a, b) == <<a, b>>
Push(acc, r) == IF (acc = <<>> \/ Last(acc) # r) /\ r[1] # r[2] THEN Append(acc, r) ELSE acc
\* inner_range: <<>> when nothing is left
RECURSIVE TrimL(_, _)
TrimL(a, b) == IF a < b /\ IsSpace(CCh(s, a)) THEN TrimL(a + 1, b) ELSE a
RECURSIVE TrimR(_, _)
TrimR(a, b) == IF b # 0 /\ b > a /\ IsSpace(CCh(s, b - 1)) THEN TrimR(a, b - 1) ELSE b
Inner(a, b) == LET a1 == TrimL(a, b) b1 == TrimR(a1, b) IN IF a1 < b1 THEN <<R(a1, b1)>> ELSE <<>>
PushAll(acc, rs) == IF rs = <<>> THEN acc ELSE Push(acc, rs[1])
PEnd(ev) == IF ev.d # -1 THEN ev.d + 1 ELSE ev.e
None == <<>>

RECURSIVE GMatch(_, _, _, _)
GMatch(i, stack, pend, pos) ==
    IF i > Len(evs) THEN <<>>
    ELSE LET ev == evs[i] IN
         IF ev.t = "selector" THEN GMatch(i + 1, Append(stack, ev), None, pos)
         ELSE IF ev.t = "blockEnd"
              THEN IF stack = <<>> THEN GMatch(i + 1, stack, None, pos)
                   ELSE LET parent == Last(stack) IN
                        IF parent.s < pos /\ pos < ev.e THEN <<[t |-> "selector", s |-> parent.s, e |-> ev.e, bs |-> parent.d + 1, be |-> ev.s]>>
                        ELSE GMatch(i + 1, Front(stack), None, pos)
         ELSE IF ev.t = "propertyName" THEN GMatch(i + 1, stack, <<ev>>, pos)
         ELSE IF pend # None /\ pend[1].s < pos /\ pos < Max(ev.d + 1, ev.e)
              THEN <<[t |-> "property", s |-> pend[1].s, e |-> PEnd(ev), bs |-> ev.s, be |-> ev.e]>>
              ELSE GMatch(i + 1, stack, None, pos)

RECURSIVE GOut(_, _, _, _, _)
GOut(i, stack, prop, pos, acc) ==
    IF i > Len(evs) THEN acc
    ELSE LET ev == evs[i] IN
         IF ev.t = "selector" THEN GOut(i + 1, Append(stack, ev), None, pos, acc)
         ELSE IF ev.t = "blockEnd"
              THEN IF stack = <<>> THEN GOut(i + 1, stack, None, pos, acc)            \* `not stack and result` cannot hold here: result is returned as soon as the stack empties
                   ELSE LET left == Last(stack)
                            hit == left.s < pos /\ pos < ev.e
                            acc1 == IF hit THEN Push(PushAll(acc, Inner(left.d + 1, ev.s)), R(left.s, ev.e)) ELSE acc
                        IN IF Len(stack) = 1 /\ acc1 # <<>> THEN acc1 ELSE GOut(i + 1, Front(stack), None, pos, acc1)
         ELSE IF ev.t = "propertyName" THEN GOut(i + 1, stack, <<ev>>, pos, acc)
         ELSE GOut(i + 1, stack, None, pos,
                   IF prop # None /\ prop[1].s < pos /\ pos < Max(ev.d + 1, ev.e) THEN Push(Push(acc, R(ev.s, ev.e)), R(prop[1].s, PEnd(ev))) ELSE acc)

(* balanced_inward: stack entry / child = [s, e, d, fc], fc = <<>> or <<child>> *)
Node(a, b, d) == [s |-> a, e |-> b, d |-> d, fc |-> <<>>]
RECURSIVE ChainOf(_, _)
ChainOf(fc, acc) == IF fc = <<>> THEN acc
                    ELSE LET c == fc[1] IN ChainOf(c.fc, PushAll(Push(acc, R(c.s, c.e)), Inner(c.d + 1, c.e - 1)))
RECURSIVE GIn(_, _, _, _)
GIn(i, stack, pend, pos) ==
    IF i > Len(evs) THEN <<>>
    ELSE LET ev == evs[i] IN
         IF ev.t = "blockEnd"
         THEN IF stack = <<>> THEN GIn(i + 1, stack, None, pos)
              ELSE LET r == Last(stack) st2 == Front(stack) IN
                   IF r.s <= pos /\ pos <= ev.e
                   THEN ChainOf(r.fc, PushAll(Push(<<>>, R(r.s, ev.e)), Inner(r.d + 1, ev.s)))
                   ELSE IF st2 # <<>> /\ Last(st2).fc = <<>>
                        THEN GIn(i + 1, [st2 EXCEPT ![Len(st2)].fc = << [r EXCEPT !.e = ev.e] >>], None, pos)
                        ELSE GIn(i + 1, st2, None, pos)
         ELSE IF ev.t = "propertyName"
         THEN GIn(i + 1, IF stack # <<>> /\ Last(stack).fc = <<>> THEN [stack EXCEPT ![Len(stack)].fc = <<Node(ev.s, ev.e, ev.d)>>] ELSE stack, <<ev>>, pos)
         ELSE IF ev.t = "propertyValue"
         THEN IF pend = None THEN GIn(i + 1, stack, None, pos)
              ELSE LET p == pend[1] IN
                   IF p.s <= pos /\ pos <= ev.e THEN Push(Push(<<>>, R(p.s, PEnd(ev))), R(ev.s, ev.e))
                   ELSE GIn(i + 1, IF stack # <<>> /\ Last(stack).fc # <<>> /\ Last(stack).fc[1].s = p.s
                                   THEN [stack EXCEPT ![Len(stack)].fc = << [Last(stack).fc[1] EXCEPT !.e = PEnd(ev)] >>] ELSE stack, None, pos)
         ELSE GIn(i + 1, Append(stack, Node(ev.s, ev.e, ev.d)), None, pos)

Positions == -1..(Len(s) + 1)
Match(pos) == GMatch(1, <<>>, None, pos)
Outward(pos) == GOut(1, <<>>, None, pos, <<>>)
Inward(pos) == GIn(1, <<>>, None, pos)
Split == CSplitValue(s)

InRange(r) == 0 <= r[1] /\ r[1] <= r[2] /\ r[2] <= Len(s)
ScanRanges == CRangeOk(s, evs)
SplitRanges == CSplitOk(s, Split)
ResultRanges == \A pos \in Positions :
    /\ LET m == Match(pos) IN m # <<>> => InRange(R(m[1].s, m[1].e)) /\ InRange(R(m[1].bs, m[1].be))
    /\ \A k \in 1..Len(Outward(pos)) : InRange(Outward(pos)[k])
    /\ \A k \in 1..Len(Inward(pos)) : InRange(Inward(pos)[k])
Dump == PrintT(<<"VEC", ToJson([s |-> s, evs |-> evs, split |-> Split,
                                at |-> [p \in 1..(Len(s) + 3) |-> [m |-> Match(p - 2), o |-> Outward(p - 2), i |-> Inward(p - 2)]]])>>)
=============================================================================
