SPECIFICATION Spec
INVARIANT WrapInv
INVARIANT CopiesInv
INVARIANT Dump
CHECK_DEADLOCK FALSE
