-------------------------- MODULE Trace_ScanMonitor --------------------------
(* C16 - scanners and matchers are total and report only well-formed ranges. *)
(* A trace is one source string; an event is one call of a scanner, matcher, *)
(* balance function, attribute parser or value splitter with its result,     *)
(* flattened to:                                                             *)
(*   fn     which function                                                   *)
(*   pos    the position argument (-1 .. len+1), 0 where there is none       *)
(*   exc    TRUE when the call raised                                        *)
(*   r      list of ranges [s, e] in result order (for scan: one per event)  *)
(*   names  for HTML tags the reported names ("" elsewhere), same length     *)
(*   kinds  for HTML scan events 1 open / 2 close / 3 self-close, else 0     *)
(*   dl     for CSS scan events the reported delimiter, else 0               *)
(*   m      for HTML match: the matched open/close ranges as r-style list    *)
(* The monitor below is the property; every clause has a name that is        *)
(* reported with the rejected event.                                         *)
EXTENDS Common, Json, IOUtils

Traces == ndJsonDeserialize(IOEnv.TRACE_FILE)
VARIABLES tid, l, ok
vars == <<tid, l, ok>>
Tr == Traces[tid]
Src == Tr.src
N == Len(Src)
Ev == Tr.calls
Init == tid \in 1..Len(Traces) /\ l = 1 /\ ok = "ok"

InRange(r) == 0 <= r[1] /\ r[1] <= r[2] /\ r[2] <= N
AllInRange(rs) == \A k \in 1..Len(rs) : InRange(rs[k])
Sl(a, b) == IF a >= b THEN "" ELSE SubSeq(Src, a + 1, b)

\* HTML scan: tags in increasing, non-overlapping order; "<" ... ">" with the name right after "<" or "</"
TagOk(e, k) == LET r == e.r[k] nm == e.names[k] IN
               /\ r[1] < r[2]
               /\ Sl(r[1], r[1] + 1) = "<" /\ Sl(r[2] - 1, r[2]) = ">"
               /\ (IF e.kinds[k] = 2 THEN Sl(r[1] + 1, r[1] + 2) = "/" /\ Sl(r[1] + 2, r[1] + 2 + Len(nm)) = nm
                   ELSE Sl(r[1] + 1, r[1] + 1 + Len(nm)) = nm)
               /\ Len(nm) > 0
               /\ (k > 1 => e.r[k - 1][2] <= r[1])
StrictIn(a, b) == b[1] <= a[1] /\ a[2] <= b[2] /\ (b[1] < a[1] \/ a[2] < b[2])        \* a strictly inside b
In(a, b) == b[1] <= a[1] /\ a[2] <= b[2]
Span(e, k) == <<e.r[2 * k - 1][1], IF e.r[2 * k][2] = -1 THEN e.r[2 * k - 1][2] ELSE e.r[2 * k][2]>>   \* element k of a list of open/close pairs

Judge(e) ==
    IF e.exc THEN "raised"
    ELSE IF e.fn = "html.scan"
         THEN (IF ~AllInRange(e.r) THEN "range" ELSE IF \E k \in 1..Len(e.r) : ~TagOk(e, k) THEN "tag-shape-or-order" ELSE "ok")
    ELSE IF e.fn \in {"html.match", "html.outward", "html.inward"}
         THEN \* r holds open and close range of every reported element alternately; an absent close range is [-1, -1]
              (IF \E k \in 1..Len(e.r) : e.r[k] # <<-1, -1>> /\ ~InRange(e.r[k]) THEN "range"
               ELSE IF e.fn = "html.outward" /\ \E k \in 1..(Len(e.r) \div 2) : ~(Span(e, k)[1] < e.pos /\ e.pos < Span(e, k)[2]) THEN "outward-does-not-contain-position"
               ELSE IF e.fn = "html.outward" /\ \E k \in 2..(Len(e.r) \div 2) : ~StrictIn(Span(e, k - 1), Span(e, k)) THEN "outward-not-strictly-nested"
               ELSE IF e.fn = "html.inward" /\ \E k \in 2..(Len(e.r) \div 2) : ~In(Span(e, k), Span(e, k - 1)) THEN "inward-not-nested"
               ELSE IF e.fn = "html.outward" /\ e.m # (IF e.r = <<>> THEN <<>> ELSE <<e.r[1], e.r[2]>>) THEN "match-is-not-first-of-outward"
               ELSE "ok")
    ELSE IF e.fn = "css.scan"
         THEN (IF ~AllInRange(e.r) THEN "range" ELSE IF \E k \in 1..Len(e.dl) : e.dl[k] < -1 \/ e.dl[k] >= Max(N, 1) THEN "delimiter" ELSE "ok")
    ELSE (IF ~AllInRange(e.r) THEN "range" ELSE "ok")      \* css.match / css.outward / css.inward / css.split_value / html.attributes

Call == /\ l <= Len(Ev) /\ ok = "ok" /\ ok' = Judge(Ev[l]) /\ l' = l + 1 /\ UNCHANGED tid
Next == Call
Spec == Init /\ [][Next]_vars
Verdict == /\ (ok # "ok" => PrintT(<<"REJECT", Tr.tid, l - 1, ok>>))
           /\ ((ok = "ok" /\ l = Len(Ev) + 1) => PrintT(<<"ACCEPT", Tr.tid>>))
=============================================================================
