------------------------------ MODULE CssValues ------------------------------
(* C05 - stylesheet abbreviations resolve numbers, units, colours, !.        *)
(*                                                                           *)
(* Generator: a list of properties (joined by +), each a key of a property   *)
(*   snippet followed by abstract values - numbers (sign, literal, unit),    *)
(*   #-colours (hex digits, alpha), the keyword a(uto) - and an optional !.  *)
(*   The abbreviation is Render(props): values are written one after another *)
(*   with a "-" exactly where the statement requires a separator (after a    *)
(*   unit-less number or a colour, and before a keyword); a further "-" is a *)
(*   minus sign; a keyword as first value is introduced by ":".              *)
(* Machine  : the real tokenizer algorithm (CssTokenizer.tla) run on the     *)
(*   rendered string.                                                        *)
(* Theorem checked by TLC (RoundTrip): tokenizing Render(v) gives back       *)
(*   exactly the values v - no value is split, merged or swallowed.          *)
(* Contract : Expected(props, row) - the output lines for an option row      *)
(*   (intUnit, floatUnit, unitAliases, shortHex, between, after), with the   *)
(*   colour invariants (value never changes, short form only when every      *)
(*   channel allows it).                                                     *)
EXTENDS CssTokenizer, Json

CONSTANTS MaxValues, MaxProps, ShapeIdx, KeyIdx

NumShape(neg, lit, canon, float, zero, unit) == [k |-> "num", neg |-> neg, lit |-> lit, canon |-> canon, float |-> float, zero |-> zero,
                                                 unit |-> unit, dig |-> "", alpha |-> ""]
ColShape(dig, alpha) == [k |-> "col", neg |-> FALSE, lit |-> "", canon |-> "", float |-> FALSE, zero |-> FALSE, unit |-> "", dig |-> dig, alpha |-> alpha]
KwShape == [k |-> "kw", neg |-> FALSE, lit |-> "a", canon |-> "auto", float |-> FALSE, zero |-> FALSE, unit |-> "", dig |-> "", alpha |-> ""]
Shapes == <<
  NumShape(FALSE, "0", "0", FALSE, TRUE, ""),      NumShape(FALSE, "0", "0", FALSE, TRUE, "px"),
  NumShape(FALSE, "5", "5", FALSE, FALSE, ""),     NumShape(FALSE, "5", "5", FALSE, FALSE, "p"),
  NumShape(FALSE, "5", "5", FALSE, FALSE, "e"),    NumShape(FALSE, "5", "5", FALSE, FALSE, "x"),
  NumShape(FALSE, "5", "5", FALSE, FALSE, "r"),    NumShape(FALSE, "5", "5", FALSE, FALSE, "px"),
  NumShape(FALSE, "5", "5", FALSE, FALSE, "%"),    NumShape(TRUE,  "5", "5", FALSE, FALSE, ""),
  NumShape(TRUE,  "5", "5", FALSE, FALSE, "px"),   NumShape(FALSE, "10", "10", FALSE, FALSE, ""),
  NumShape(FALSE, "10", "10", FALSE, FALSE, "em"), NumShape(FALSE, "10", "10", FALSE, FALSE, "rem"),
  NumShape(FALSE, ".5", "0.5", TRUE, FALSE, ""),   NumShape(FALSE, ".5", "0.5", TRUE, FALSE, "e"),
  NumShape(FALSE, ".5", "0.5", TRUE, FALSE, "px"), NumShape(TRUE,  ".5", "0.5", TRUE, FALSE, ""),
  NumShape(FALSE, "1.", "1", TRUE, FALSE, ""),     NumShape(FALSE, "1.", "1", TRUE, FALSE, "p"),
  NumShape(FALSE, "1.25", "1.25", TRUE, FALSE, ""), NumShape(FALSE, "1.25", "1.25", TRUE, FALSE, "x"),
  KwShape,
  ColShape("0", ""), ColShape("0", ".5"), ColShape("0", ".0"), ColShape("f", ""), ColShape("f", "."), ColShape("fa", ""),
  ColShape("1a", ".25"), ColShape("fa0", ""), ColShape("fc0", ".5"), ColShape("0a0b0c", ""), ColShape("e7bc0b", ""),
  ColShape("ffffff", ""), ColShape("ffffff", ".0"), ColShape("a0", ""),
  ColShape("ffcc01", ""), ColShape("ff01cc", ""), ColShape("01ffcc", ""), ColShape("aab1cc", ".5"),
  \* numbers with more than four significant digits
  NumShape(FALSE, "99999", "99999", FALSE, FALSE, ""), NumShape(FALSE, "12345", "12345", FALSE, FALSE, "px"),
  NumShape(FALSE, "100.25", "100.25", TRUE, FALSE, ""), NumShape(TRUE, "1234.5", "1234.5", TRUE, FALSE, "e"),
  \* a colour without hex digits is black: with an alpha value, with alpha zero (46, 47; a bare "#" is a colour only at the very end of the abbreviation)
  ColShape("", ".5"), ColShape("", ".0"),
  \* zero written as a float stays bare like any zero (48, 49)
  NumShape(FALSE, "0.0", "0", TRUE, TRUE, ""), NumShape(FALSE, ".0", "0", TRUE, TRUE, ""),
  \* no channel is a doubled digit, yet the sum of the channels is a multiple of 17 (50, 51)
  ColShape("100001", ""), ColShape("010f01", "") >>
Keys == << [key |-> "p",  prop |-> "padding",     unitless |-> FALSE, takes |-> "num"],
           [key |-> "m",  prop |-> "margin",      unitless |-> FALSE, takes |-> "num"],
           [key |-> "z",  prop |-> "z-index",     unitless |-> TRUE,  takes |-> "num"],
           [key |-> "lh", prop |-> "line-height", unitless |-> TRUE,  takes |-> "num"],
           [key |-> "c",  prop |-> "color",       unitless |-> FALSE, takes |-> "col"],
           \* the other properties that take bare numbers by default (stylesheet.unitless)
           [key |-> "op",   prop |-> "opacity",     unitless |-> TRUE, takes |-> "num"],
           [key |-> "fw",   prop |-> "font-weight", unitless |-> TRUE, takes |-> "num"],
           [key |-> "zoo",  prop |-> "zoom",        unitless |-> TRUE, takes |-> "num"],
           [key |-> "fx",   prop |-> "flex",        unitless |-> TRUE, takes |-> "num"],
           [key |-> "fxg",  prop |-> "flex-grow",   unitless |-> TRUE, takes |-> "num"],
           [key |-> "fxsh", prop |-> "flex-shrink", unitless |-> TRUE, takes |-> "num"] >>

VARIABLES props
cvars == <<props, s>>

(* ---------------------------------------------------------------- render *)
TextOfValue(v) == IF v.k = "num" THEN (IF v.neg THEN "-" ELSE "") \o v.lit \o v.unit
                  ELSE IF v.k = "col" THEN "#" \o v.dig \o v.alpha
                  ELSE v.lit
NeedsDash(p, v) == (p.k = "num" /\ p.unit = "") \/ p.k = "col" \/ v.k = "kw"
RECURSIVE RenderVals(_, _)
RenderVals(vals, i) == IF i > Len(vals) THEN ""
                       ELSE (IF i = 1 THEN (IF vals[1].k = "kw" THEN ":" ELSE "")
                             ELSE IF NeedsDash(vals[i - 1], vals[i]) THEN "-" ELSE "")
                            \o TextOfValue(vals[i]) \o RenderVals(vals, i + 1)
RenderProp(p) == Keys[p.key].key \o RenderVals(p.vals, 1) \o (IF p.imp THEN "!" ELSE "")
RECURSIVE RenderAll(_, _)
RenderAll(ps, i) == IF i > Len(ps) THEN "" ELSE (IF i > 1 THEN "+" ELSE "") \o RenderProp(ps[i]) \o RenderAll(ps, i + 1)
Render(ps) == RenderAll(ps, 1)

(* ------------------------------------------------------------- generator *)
Init == props = <<>> /\ s = ""
LastP == props[Len(props)]
Allowed(kidx, sidx) == LET sh == Shapes[sidx] t == Keys[kidx].takes IN
                       IF t = "col" THEN sh.k = "col" ELSE sh.k = "num" \/ (sh.k = "kw" /\ kidx <= 5)     \* keys 6.. list no keyword "auto"
NewProp == /\ Len(props) < MaxProps /\ (props # <<>> => LastP.vals # <<>>)
           /\ \E kx \in KeyIdx : props' = Append(props, [key |-> kx, vals |-> <<>>, imp |-> FALSE])
           /\ s' = Render(props')
AddValue == /\ props # <<>> /\ ~LastP.imp /\ Len(LastP.vals) < MaxValues
            /\ \E sx \in ShapeIdx : /\ Allowed(LastP.key, sx)
                                    /\ props' = [props EXCEPT ![Len(props)].vals = Append(@, Shapes[sx])]
            /\ s' = Render(props')
Important == /\ props # <<>> /\ ~LastP.imp /\ LastP.vals # <<>>
             /\ props' = [props EXCEPT ![Len(props)].imp = TRUE]
             /\ s' = Render(props')
Next == NewProp \/ AddValue \/ Important
Spec == Init /\ [][Next]_cvars
Complete == props # <<>> /\ \A i \in 1..Len(props) : props[i].vals # <<>>

(* ----------------------------------------------------- theorem: round trip *)
RECURSIVE FlatTexts(_, _)
FlatTexts(ps, i) == IF i > Len(ps) THEN <<>>
                    ELSE <<Keys[ps[i].key].key>> \o [j \in 1..Len(ps[i].vals) |-> TextOfValue(ps[i].vals[j])] \o FlatTexts(ps, i + 1)
RECURSIVE FlatKinds(_, _)
KindTok(v) == IF v.k = "num" THEN "NumberValue" ELSE IF v.k = "col" THEN "ColorValue" ELSE "Literal"
FlatKinds(ps, i) == IF i > Len(ps) THEN <<>>
                    ELSE <<"Literal">> \o [j \in 1..Len(ps[i].vals) |-> KindTok(ps[i].vals[j])] \o FlatKinds(ps, i + 1)
ValueToks == SelectSeq(Tokens.toks, LAMBDA t : t.t # "Operator")
RoundTrip == Complete =>
               /\ Tokens.err = -1
               /\ [j \in 1..Len(ValueToks) |-> Slice(s, ValueToks[j].s, ValueToks[j].e)] = FlatTexts(props, 1)
               /\ [j \in 1..Len(ValueToks) |-> ValueToks[j].t] = FlatKinds(props, 1)
Tiling == TilingOf(Tokens)

(* -------------------------------------------------------------- contract *)
HexVal(c) == CASE c = "a" -> 10 [] c = "b" -> 11 [] c = "c" -> 12 [] c = "d" -> 13 [] c = "e" -> 14 [] c = "f" -> 15 [] OTHER -> DigitVal(c)
HexDigit(n) == SubSeq("0123456789abcdef", n + 1, n + 1)
Hex2(n) == HexDigit(n \div 16) \o HexDigit(n % 16)
Pair(a, b) == HexVal(a) * 16 + HexVal(b)
Channels(d) == LET L == Len(d) IN
               IF L = 0 THEN <<0, 0, 0>>
               ELSE IF L = 1 THEN LET v == Pair(At(d, 1), At(d, 1)) IN <<v, v, v>>
               ELSE IF L = 2 THEN LET v == Pair(At(d, 1), At(d, 2)) IN <<v, v, v>>
               ELSE IF L = 3 THEN <<Pair(At(d, 1), At(d, 1)), Pair(At(d, 2), At(d, 2)), Pair(At(d, 3), At(d, 3))>>
               ELSE <<Pair(At(d, 1), At(d, 2)), Pair(At(d, 3), At(d, 4)), Pair(At(d, 5), At(d, 6))>>
AlphaOut(a) == CASE a = "" -> "1" [] a = "." -> "1" [] a = ".5" -> "0.5" [] a = ".0" -> "0" [] a = ".25" -> "0.25"
PrintHex(ch, short) == IF short /\ ch[1] % 17 = 0 /\ ch[2] % 17 = 0 /\ ch[3] % 17 = 0
                       THEN "#" \o HexDigit(ch[1] \div 17) \o HexDigit(ch[2] \div 17) \o HexDigit(ch[3] \div 17)
                       ELSE "#" \o Hex2(ch[1]) \o Hex2(ch[2]) \o Hex2(ch[3])
PrintColor(v, short) == LET ch == Channels(v.dig) a == AlphaOut(v.alpha) IN
                        IF ch = <<0, 0, 0>> /\ a = "0" THEN "transparent"
                        ELSE IF a = "1" THEN PrintHex(ch, short)
                        ELSE "rgba(" \o ToString(ch[1]) \o ", " \o ToString(ch[2]) \o ", " \o ToString(ch[3]) \o ", " \o a \o ")"
\* value of a printed hex colour, for the invariant
ParseHex(h) == IF Len(h) = 4 THEN Channels(SubSeq(h, 2, 4)) ELSE Channels(SubSeq(h, 2, 7))
ColourPreserved == \A i \in ShapeIdx : Shapes[i].k = "col" => \A short \in BOOLEAN :
                      LET pr == PrintHex(Channels(Shapes[i].dig), short) IN
                      /\ ParseHex(pr) = Channels(Shapes[i].dig)
                      /\ (Len(pr) = 4 => short /\ \A c \in 1..3 : Channels(Shapes[i].dig)[c] % 17 = 0)

(* rows of options *)
AliasStd == [p |-> "%", e |-> "em", x |-> "ex", r |-> "rem"]
AliasAlt == [p |-> "pt", q |-> "Q"]
Rows == << [syntax |-> "css",    intUnit |-> "px", floatUnit |-> "em",  alias |-> "std", short |-> TRUE,  between |-> ": ", after |-> ";"],
           [syntax |-> "scss",   intUnit |-> "pt", floatUnit |-> "rem", alias |-> "std", short |-> FALSE, between |-> ": ", after |-> ";"],
           [syntax |-> "sass",   intUnit |-> "px", floatUnit |-> "em",  alias |-> "alt", short |-> TRUE,  between |-> ": ", after |-> ""],
           [syntax |-> "stylus", intUnit |-> "",   floatUnit |-> "em",  alias |-> "std", short |-> TRUE,  between |-> " ",  after |-> ""],
           [syntax |-> "less",   intUnit |-> "px", floatUnit |-> "",    alias |-> "std", short |-> FALSE, between |-> ": ", after |-> ";"] >>
AliasOf(row, u) == LET al == IF row.alias = "std" THEN AliasStd ELSE AliasAlt IN IF u \in DOMAIN al THEN al[u] ELSE u
PrintNum(v, key, row) == (IF v.neg THEN "-" ELSE "") \o v.canon \o
                         (IF v.unit # "" THEN AliasOf(row, v.unit)
                          ELSE IF v.zero \/ key.unitless THEN ""
                          ELSE IF v.float THEN row.floatUnit ELSE row.intUnit)
PrintVal(v, key, row) == IF v.k = "num" THEN PrintNum(v, key, row) ELSE IF v.k = "col" THEN PrintColor(v, row.short) ELSE v.canon
Line(p, row) == Keys[p.key].prop \o row.between \o JoinSeq([j \in 1..Len(p.vals) |-> PrintVal(p.vals[j], Keys[p.key], row)], " ")
                \o (IF p.imp THEN " !important" ELSE "") \o row.after
Expected(row) == [i \in 1..Len(props) |-> Line(props[i], row)]

Dump == Complete => PrintT(<<"VEC", ToJson([abbr |-> s, rows |-> [r \in 1..Len(Rows) |-> [row |-> Rows[r], lines |-> Expected(Rows[r])]]])>>)
=============================================================================
