------------------------------- MODULE Extract -------------------------------
(* C11, round-trip clause - extract() finds exactly the abbreviation that    *)
(* ends at the caret.                                                        *)
(*                                                                           *)
(* Embedding model: line = L . P . A . C . T with                            *)
(*   L  a left context (start of line, blanks, text, complete HTML tags),    *)
(*   P  an optional prefix, A a valid abbreviation built online from         *)
(*   elements and operators, C the closing quote / brackets an editor has    *)
(*   auto-inserted for A's open brackets (caret is BEFORE C), T trailing     *)
(*   text.  Contract: extract(line, |L.P.A|) returns abbreviation = A.C,     *)
(*   location = |L.P|, start = |L|, end = |L.P.A.C| (C only with lookAhead). *)
(* As-is machine: faithful transcription of the backward scan with its       *)
(*   bracket stack and of the is_html() heuristic (identifier, attribute     *)
(*   with quoted / unquoted value back-scans, the exit that accepts a tag    *)
(*   end without having seen "<").  It is used to compute, per embedding,    *)
(*   whether the heuristic fires INSIDE A - the deviation behind known       *)
(*   finding F17; the flag travels with the vector.                          *)
EXTENDS Common, Json

CONSTANTS MaxAtoms, LeftIdx, ElemIdx, Mode      \* Mode: "markup" | "stylesheet"

Lefts == <<"", " ", "foo ", "<div>", "<a href=\"x\">", "<br/>", "</p>", "<i title=x>", "\t", "a{", "color: red; ",
          "<p\thidden>", "<a b=c\td e='f'>", "<br\t/>",
          "<a x=\"it's\" y>", "<i t='say \"hi\"' />",
          "text<b>", "Hello<br/>", "a1<i t=u>">>            \* a quoted value holding the other kind of quote, then more of the tag          \* tags written with tabs between their parts
Elems == <<"a", "b1", "ul.c", "li[title=x]", "p{x>y}", "a[t=\"v w\"]", "em*3", "(a+b)", ".c", "#i.d", "x[b=c]", "h1{a b}", "td[colspan=2]*2", "a[t=\"f(a, b)\"]", "x[o=\"g('y')\"]", "p{f(a, b) c}", "p{it's %%3}", "x[t='%%']{b'c}", "p{Hello {name}!}", "x{a {b {c}} d}[t={e}]", "a[t=\"it's\"]", "i[a='5\" d']">>
CssElems == <<"p10", "m10-20", "c#f.5", "bd1-s#f!", "lg(top,#fc0)", "w100p", "pos:a", "@kf", "w100%", "m10%-20%", "fz120%!">>
Ops == IF Mode = "markup" THEN {">", "+", "^"} ELSE {"+"}
(* abbreviations whose last bracket / quote is still open, with what the editor auto-inserts after the caret *)
OpenEnds == IF Mode = "markup" THEN << <<"a[t", "]">>, <<"a{x", "}">>, <<"(a+b", ")">>, <<"a[t=\"v", "\"]">>, <<"p>(a{x", "})">> >>
            ELSE << <<"lg(top", ")">> >>
Tails == <<"", " x", "<">>

VARIABLES left, prefix, abbr, closers, tail, natoms, expectOp
vars == <<left, prefix, abbr, closers, tail, natoms, expectOp>>

ES == IF Mode = "markup" THEN Elems ELSE CssElems
Init == /\ left \in {Lefts[i] : i \in LeftIdx} /\ prefix \in {"", "%%"} /\ abbr = "" /\ closers = "" /\ tail = "" /\ natoms = 0 /\ expectOp = FALSE
AddElem == /\ ~expectOp /\ natoms < MaxAtoms /\ closers = "" /\ tail = ""
           /\ \E k \in ElemIdx : k <= Len(ES) /\ abbr' = abbr \o ES[k]
           /\ natoms' = natoms + 1 /\ expectOp' = TRUE /\ UNCHANGED <<left, prefix, closers, tail>>
AddOp == /\ expectOp /\ natoms < MaxAtoms /\ closers = "" /\ tail = ""
         /\ \E o \in Ops : abbr' = abbr \o o
         /\ natoms' = natoms + 1 /\ expectOp' = FALSE /\ UNCHANGED <<left, prefix, closers, tail>>
AddOpenEnd == /\ ~expectOp /\ natoms < MaxAtoms /\ closers = "" /\ tail = ""
              /\ \E k \in 1..Len(OpenEnds) : abbr' = abbr \o OpenEnds[k][1] /\ closers' = OpenEnds[k][2]
              /\ natoms' = natoms + 1 /\ expectOp' = TRUE /\ UNCHANGED <<left, prefix, tail>>
AddTail == /\ expectOp /\ tail = "" /\ \E k \in 2..Len(Tails) : tail' = Tails[k]
           /\ UNCHANGED <<left, prefix, abbr, closers, natoms, expectOp>>
Next == AddElem \/ AddOp \/ AddOpenEnd \/ AddTail
Spec == Init /\ [][Next]_vars
Complete == expectOp /\ abbr # ""

Line == left \o prefix \o abbr \o closers \o tail
Caret == Len(left) + Len(prefix) + Len(abbr)                       \* the position handed to extract()
ScanEnd == Caret + Len(closers)                                    \* where look-ahead moves the caret to
Sol == IF prefix = "" THEN 0 ELSE Len(left) + Len(prefix)          \* left bound of the backward scan

(* --------------------------------------------------------------- contract *)
Expected(lookAhead) == IF closers # "" /\ ~lookAhead THEN [found |-> FALSE, abbreviation |-> "", location |-> 0, start |-> 0, end |-> 0]   \* not judged
                       ELSE [found |-> TRUE, abbreviation |-> abbr \o closers, location |-> Len(left) + Len(prefix),
                             start |-> Len(left), end |-> ScanEnd]

(* ------------------------------------------ as-is machine (transcription) *)
Pk(p) == IF p >= 1 /\ p <= Len(Line) THEN SubSeq(Line, p, p) ELSE ""      \* the character the backward scanner looks at at position p
IsQuoteC(c) == c \in {"'", "\""}
IsWSC(c) == c \in {" ", "\t"}
IsIdent(c) == c = ":" \/ c = "-" \/ IsAlpha(c) \/ IsDigit(c)
IsAbbrCh(c) == IsAlpha(c) \/ IsDigit(c) \/ c \in {"#", ".", "*", ":", "$", "-", "_", "!", "@", "%", "^", "+", ">", "/"}
IsOpenBr(c) == c \in {"{", "(", "["}
IsCloseBr(c) == c \in {"}", ")", "]"}
IsOpenBrace(c) == c = "(" \/ (Mode = "markup" /\ c \in {"[", "{"})
IsCloseBrace(c) == c = ")" \/ (Mode = "markup" /\ c \in {"]", "}"})
PairOf(c) == CASE c = "[" -> "]" [] c = "(" -> ")" [] c = "{" -> "}"
IsUnq(c) == c # "" /\ c # "=" /\ ~IsWSC(c) /\ ~IsQuoteC(c)
RECURSIVE While(_, _)
ClsOf(c, k) == CASE k = "ws" -> IsWSC(c) [] k = "ident" -> IsIdent(c)
While(p, k) == IF p > Sol /\ ClsOf(Pk(p), k) THEN While(p - 1, k) ELSE p
Eat(p, ch) == IF p > Sol /\ Pk(p) = ch THEN p - 1 ELSE p
RECURSIVE QLoop(_, _)
QLoop(p, q) == IF p = Sol THEN -1 ELSE IF Pk(p) = q /\ Pk(p - 1) # "\\" THEN p - 1 ELSE QLoop(p - 1, q)
Quoted(p) == IF p > Sol /\ IsQuoteC(Pk(p)) THEN QLoop(p - 1, Pk(p)) ELSE -1
AttrQuoted(p) == LET q == Quoted(p) IN
                 IF q = -1 THEN -1 ELSE LET e == Eat(q, "=") IN IF e = q THEN -1 ELSE LET i == While(e, "ident") IN IF i = e THEN -1 ELSE i
RECURSIVE UnqLoop(_, _)
UnqLoop(p, st) == IF p = Sol THEN p
                  ELSE LET ch == Pk(p) IN
                       IF IsCloseBr(ch) THEN UnqLoop(p - 1, Append(st, ch))
                       ELSE IF IsOpenBr(ch) THEN (IF st = <<>> \/ Last(st) # PairOf(ch) THEN p ELSE UnqLoop(p - 1, Front(st)))
                       ELSE IF ~IsUnq(ch) THEN p ELSE UnqLoop(p - 1, st)
AttrUnq(p) == LET u == UnqLoop(p, <<>>) IN
              IF u = p THEN -1 ELSE LET e == Eat(u, "=") IN IF e = u THEN -1 ELSE LET i == While(e, "ident") IN IF i = e THEN -1 ELSE i
RECURSIVE HtmlLoop(_)
HtmlLoop(p0) ==
    IF p0 = Sol THEN FALSE
    ELSE LET p == While(p0, "ws") i == While(p, "ident") IN
         IF i < p THEN
            (IF Eat(i, "/") < i THEN Eat(Eat(i, "/"), "<") < Eat(i, "/")
             ELSE IF Eat(i, "<") < i THEN TRUE
             ELSE IF i > Sol /\ IsWSC(Pk(i)) THEN HtmlLoop(i - 1)
             ELSE IF Eat(i, "=") < i THEN (LET j == While(i - 1, "ident") IN IF j < i - 1 THEN HtmlLoop(j) ELSE FALSE)
             ELSE IF AttrUnq(i) # -1 THEN TRUE                    \* accepts a tag end without having seen "<"
             ELSE FALSE)
         ELSE IF AttrQuoted(p) # -1 THEN HtmlLoop(AttrQuoted(p))
         ELSE IF AttrUnq(p) # -1 THEN HtmlLoop(AttrUnq(p))
         ELSE FALSE
IsHtml(p) == IF p > Sol /\ Pk(p) = ">" THEN HtmlLoop(Eat(p - 1, "/")) ELSE FALSE
InSt(st, ch) == \E i \in 1..Len(st) : st[i] = ch
RECURSIVE XLoop(_, _)
XLoop(p, st) ==
    IF p = Sol THEN [p |-> p, st |-> st, html |-> FALSE]
    ELSE LET ch == Pk(p) IN
         IF InSt(st, "}") /\ ch = "}" THEN XLoop(p - 1, Append(st, ch))
         ELSE IF InSt(st, "}") /\ ch # "{" THEN XLoop(p - 1, st)
         ELSE IF IsCloseBrace(ch) THEN XLoop(p - 1, Append(st, ch))
         ELSE IF IsOpenBrace(ch) THEN (IF st = <<>> \/ Last(st) # PairOf(ch) THEN [p |-> p, st |-> (IF st = <<>> THEN st ELSE Front(st)), html |-> FALSE]
                                        ELSE XLoop(p - 1, Front(st)))
         ELSE IF InSt(st, "]") \/ InSt(st, "}") THEN XLoop(p - 1, st)
         ELSE IF IsHtml(p) THEN [p |-> p, st |-> st, html |-> TRUE]
         ELSE IF ~IsAbbrCh(ch) THEN [p |-> p, st |-> st, html |-> FALSE]
         ELSE XLoop(p - 1, st)
AsIs == XLoop(ScanEnd, <<>>)
\* the heuristic stops the scan at a ">" that belongs to the abbreviation (known finding F17)
TagEndFiresInsideAbbreviation == AsIs.html /\ AsIs.p > Len(left) + Len(prefix)

\* a comma between function arguments is not an abbreviation character for the backward scan (known finding F32)
RECURSIVE HasComma(_)
HasComma(x) == x # "" /\ (SubSeq(x, 1, 1) = "," \/ HasComma(Tail(x)))
CommaInArguments == Mode = "stylesheet" /\ HasComma(abbr)

(* self-check of the embedding model: the intended scan (heuristic only where a "<" is really reached, i.e. in L) stops at |L.P| *)
RECURSIVE Strip(_)
Strip(str) == IF str # "" /\ SubSeq(str, 1, 1) \in {"*", "+", ">", "^"} THEN Strip(Tail(str)) ELSE str
EmbeddingInv == (Complete /\ ~TagEndFiresInsideAbbreviation /\ ~CommaInArguments) =>
                   /\ AsIs.st = <<>>
                   /\ Strip(SubSeq(Line, AsIs.p + 1, ScanEnd)) = abbr \o closers

Dump == Complete => PrintT(<<"VEC", ToJson([line |-> Line, pos |-> Caret, prefix |-> prefix, mode |-> Mode, hasClosers |-> closers # "",
                                             expLA |-> Expected(TRUE), expNoLA |-> Expected(FALSE), f17 |-> TagEndFiresInsideAbbreviation, f32 |-> CommaInArguments])>>)
=============================================================================
