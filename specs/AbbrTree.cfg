SPECIFICATION Spec
INVARIANT TreeInv
INVARIANT OncePerRepetition
INVARIANT DocOrder
INVARIANT DepthStep
INVARIANT Dump
CHECK_DEADLOCK FALSE
