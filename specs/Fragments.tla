------------------------------ MODULE Fragments ------------------------------
(* Input generator for the "all strings" properties (C07, C18) one level     *)
(* above Strings.tla: the input is built from syntactic fragments of the     *)
(* abbreviation language or of a document (an element name, #id, .class, attribute sets of    *)
(* every kind, text, repeaters, numbering forms, operators, brackets), one   *)
(* fragment per step.  Every sequence of up to MaxFrag fragments is a state, *)
(* well formed or not, so combinations that need six to ten characters of a  *)
(* particular shape (a quoted value without name next to an id, a numbering  *)
(* form with parent modifier and base inside a class, a function call        *)
(* followed by a value without delimiter) are all reached.                   *)
(* "BS" / "DQ" / "NL" / "CR" stand for backslash / double quote / line feed  *)
(* / carriage return inside a fragment (cfg files cannot hold them); they    *)
(* are replaced wherever they occur.                                         *)
EXTENDS Common, Json
CONSTANTS Frags, MaxFrag
VARIABLES s, n
vars == <<s, n>>
Init == s = "" /\ n = 0
Next == n < MaxFrag /\ \E f \in Frags : s' = s \o Subst(f) /\ n' = n + 1
Spec == Init /\ [][Next]_vars
Dump == PrintT(<<"VEC", ToJson([s |-> s])>>)
=============================================================================
