SPECIFICATION TraceSpec
INVARIANT Verdict
INVARIANT CallerConfigStable
INVARIANT ResultPure
INVARIANT NoRetention
CHECK_DEADLOCK FALSE
CONSTANTS
  Deviations = {}
  MaxCalls = 1000
