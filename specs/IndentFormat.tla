---------------------------- MODULE IndentFormat ----------------------------
(* C15 - HAML, Pug and Slim output has one line per element at its depth.    *)
(*                                                                           *)
(* Generator: AbbrTree's online generator (operators > + ^ and *N, its stack *)
(*   machine and depth-number contract) with decorated elements: id, class   *)
(*   names, other attributes, single- and multi-line text, self-closing      *)
(*   mark, plain / implicit / bare div.                                      *)
(* Contract : the line list each syntax must print, computed from the        *)
(*   contract listing [depth, element] of the tree: head = name#id.classes   *)
(*   (div omitted when an id or class is present, % prefix in HAML), the     *)
(*   syntax' attribute list, its self-closing mark, single-line text after a *)
(*   blank; multi-line text one level deeper, one line per text line.        *)
(* TLC checks the tree invariants of AbbrTree on these abbreviations and     *)
(* that the depths of the element lines are exactly the depths of the tree   *)
(* (LinesFollowTree), i.e. the tree recovered from the indentation is the    *)
(* tree the operators denote - the one the HTML output has (C01).            *)
EXTENDS AbbrTree

CONSTANTS FormIdx

NOTEXT == <<>>
BOOL == "<bool>"          \* a boolean attribute (mark "." or listed in output.booleanAttributes) without value
F(s, n, id, cls, attrs, text, sc, impl) == [s |-> s, n |-> n, id |-> id, cls |-> cls, attrs |-> attrs, text |-> text, sc |-> sc, impl |-> impl]
Forms == <<
  F("x",                 "x",   "",  <<>>,         <<>>,                       NOTEXT,               FALSE, FALSE),
  F("p#i",               "p",   "i", <<>>,         <<>>,                       NOTEXT,               FALSE, FALSE),
  F("div.c",             "div", "",  <<"c">>,      <<>>,                       NOTEXT,               FALSE, FALSE),
  F("div#i.c.d",         "div", "i", <<"c", "d">>, <<>>,                       NOTEXT,               FALSE, FALSE),
  F("em[t=v]",           "em",  "",  <<>>,         <<<<"t", "v">>>>,           NOTEXT,               FALSE, FALSE),
  F("x.c[t=v u=w]",      "x",   "",  <<"c">>,      <<<<"t", "v">>, <<"u", "w">>>>, NOTEXT,           FALSE, FALSE),
  F("p{txt}",            "p",   "",  <<>>,         <<>>,                       <<"txt">>,            FALSE, FALSE),
  F("x{l1\nl2}",         "x",   "",  <<>>,         <<>>,                       <<"l1", "l2">>,       FALSE, FALSE),
  F("br/",               "br",  "",  <<>>,         <<>>,                       NOTEXT,               TRUE,  FALSE),
  F(".c",                "?",   "",  <<"c">>,      <<>>,                       NOTEXT,               FALSE, TRUE),
  F("div",               "div", "",  <<>>,         <<>>,                       NOTEXT,               FALSE, FALSE),
  F("div[t=v]",          "div", "",  <<>>,         <<<<"t", "v">>>>,           NOTEXT,               FALSE, FALSE),
  F("x#i{l1\nlonger2}",  "x",   "i", <<>>,         <<>>,                       <<"l1", "longer2">>,  FALSE, FALSE),
  F("#j",                "?",   "j", <<>>,         <<>>,                       NOTEXT,               FALSE, TRUE),
  F("em.c{t}",           "em",  "",  <<"c">>,      <<>>,                       <<"t">>,              FALSE, FALSE),
  F("p{one\rtwo}",       "p",   "",  <<>>,         <<>>,                       <<"one", "two">>,     FALSE, FALSE),
  F("x.d{a\r\nbc}",      "x",   "",  <<"d">>,      <<>>,                       <<"a", "bc">>,        FALSE, FALSE),
  F("x[d. t=v]",         "x",   "",  <<>>,         <<<<"d", BOOL>>, <<"t", "v">>>>, NOTEXT,            FALSE, FALSE),
  F("p[disabled]#i",     "p",   "i", <<>>,         <<<<"disabled", BOOL>>>>,   NOTEXT,               FALSE, FALSE),
  F("em[v=1 w]{t}",      "em",  "",  <<>>,         <<<<"v", "1">>, <<"w", "">>>>, <<"t">>,            FALSE, FALSE),
  F("em[t=v !m]",        "em",  "",  <<>>,         <<<<"t", "v">>>>,           NOTEXT,               FALSE, FALSE),     \* an implied attribute without value is not printed
  F("x[!m]",             "x",   "",  <<>>,         <<>>,                       NOTEXT,               FALSE, FALSE),
  F("p.c[!m u=w !g]",    "p",   "",  <<"c">>,      <<<<"u", "w">>>>,           NOTEXT,               FALSE, FALSE),
  F("x{one\ntwo\n}",     "x",   "",  <<>>,         <<>>,                       <<"one", "two", "">>, FALSE, FALSE),     \* a final line break is followed by a last, empty line
  F("em{note\n}",        "em",  "",  <<>>,         <<>>,                       <<"note", "">>,       FALSE, FALSE),
  F("p{a\n\nb}",         "p",   "",  <<>>,         <<>>,                       <<"a", "", "b">>,     FALSE, FALSE),       \* a blank line is a line
  \* names that are pieces of the word div are names like any other (27-29)
  F("i.fa.fa-home",      "i",   "",  <<"fa", "fa-home">>, <<>>,                NOTEXT,               FALSE, FALSE),
  F("d#k",               "d",   "k", <<>>,         <<>>,                       NOTEXT,               FALSE, FALSE),
  F("v.c{t}",            "v",   "",  <<"c">>,      <<>>,                       <<"t">>,              FALSE, FALSE) >>
FormKey(k) == "F" \o ToString(k)
KeyIdx(key) == CHOOSE k \in 1..Len(Forms) : FormKey(k) = key

INext == \/ \E k \in FormIdx : Item(Forms[k].s, FormKey(k), Forms[k].sc)
         \/ Child \/ Sibling \/ Climb \/ Repeat
ISpec == Init /\ [][INext]_vars

(* listing of decorated elements, implicit names resolved by the parent's name *)
NameOfKey(key) == Forms[KeyIdx(key)].n
RECURSIVE IResolve(_, _)
IParent(done, d) == IF d = 0 THEN "" ELSE LET idx == {j \in 1..Len(done) : done[j].d = d - 1} IN done[CHOOSE j \in idx : \A k \in idx : k <= j].n
IResolve(done, rest) == IF rest = <<>> THEN done
                        ELSE LET h == Head(rest) f == Forms[KeyIdx(h.n)]
                                 nm == IF f.impl THEN ImplName(IParent(done, h.d)) ELSE f.n
                             IN IResolve(Append(done, [d |-> h.d, n |-> nm, f |-> KeyIdx(h.n)]), Tail(rest))
Tree == IResolve(<<>>, ContractListing)

(* ------------------------------------------------------------ line contract *)
Syntaxes == <<"pug", "haml", "slim">>
RECURSIVE JoinAttrs(_, _, _)
OneAttr(a, syn) == IF a[2] = BOOL THEN a[1] \o (IF syn = "haml" THEN "=true" ELSE "") ELSE a[1] \o "=\"" \o a[2] \o "\""
JoinAttrs(attrs, glue, syn) == IF attrs = <<>> THEN "" ELSE OneAttr(Head(attrs), syn) \o (IF Len(attrs) > 1 THEN glue \o JoinAttrs(Tail(attrs), glue, syn) ELSE "")
RECURSIVE Dots(_)
Dots(cls) == IF cls = <<>> THEN "" ELSE "." \o Head(cls) \o Dots(Tail(cls))
HeadOf(e, syn) ==
    LET f == Forms[e.f]
        primary == f.id # "" \/ f.cls # <<>>
        nm == IF e.n = "div" /\ primary THEN "" ELSE (IF syn = "haml" THEN "%" ELSE "") \o e.n
        al == IF f.attrs = <<>> THEN ""
              ELSE IF syn = "pug" THEN "(" \o JoinAttrs(f.attrs, ", ", syn) \o ")"
              ELSE IF syn = "haml" THEN "(" \o JoinAttrs(f.attrs, " ", syn) \o ")"
              ELSE " " \o JoinAttrs(f.attrs, " ", syn)
        scm == IF f.sc THEN (IF syn = "pug" THEN "" ELSE "/") ELSE ""
        tx == IF Len(f.text) = 1 THEN " " \o f.text[1] ELSE ""
    IN nm \o (IF f.id = "" THEN "" ELSE "#" \o f.id) \o Dots(f.cls) \o al \o scm \o tx
MaxLenOf(ls) == LET RECURSIVE M(_) M(q) == IF q = <<>> THEN 0 ELSE Max(Len(Head(q)), M(Tail(q))) IN M(ls)
TextLines(e, syn) == LET f == Forms[e.f] IN
    IF Len(f.text) < 2 THEN <<>>
    ELSE [k \in 1..Len(f.text) |-> [d |-> e.d + 1, el |-> FALSE,
                                    s |-> IF syn = "haml" THEN f.text[k] \o RepeatStr(" ", MaxLenOf(f.text) - Len(f.text[k])) \o " |" ELSE "| " \o f.text[k]]]
RECURSIVE LinesOf(_, _)
LinesOf(tr, syn) == IF tr = <<>> THEN <<>>
                    ELSE <<[d |-> Head(tr).d, el |-> TRUE, s |-> HeadOf(Head(tr), syn)]>> \o TextLines(Head(tr), syn) \o LinesOf(Tail(tr), syn)

\* one element line per element of the tree, at its depth, in document order
ElemLines(ls) == SelectSeq(ls, LAMBDA x : x.el)
LinesFollowTree == Complete => LET tr == Tree IN \A k \in 1..Len(Syntaxes) :
                      LET el == ElemLines(LinesOf(tr, Syntaxes[k])) IN
                      /\ Len(el) = Len(tr)
                      /\ \A j \in 1..Len(el) : el[j].d = tr[j].d
                      /\ \A j \in 2..Len(el) : el[j].d <= el[j - 1].d + 1
TextOneDeeper == Complete => LET tr == Tree IN \A k \in 1..Len(Syntaxes) :
                    LET ls == LinesOf(tr, Syntaxes[k]) IN
                    \A j \in 1..Len(ls) : ~ls[j].el =>
                        \E q \in 1..(j - 1) : ls[q].el /\ (\A r \in (q + 1)..(j - 1) : ~ls[r].el) /\ ls[j].d = ls[q].d + 1

PairsOf(ls) == [j \in 1..Len(ls) |-> <<ls[j].d, ls[j].s>>]
IDump == Complete => LET tr == Tree IN
                     PrintT(<<"VEC", ToJson([abbr |-> abbr, tree |-> [j \in 1..Len(tr) |-> <<tr[j].d, tr[j].n>>],
                                              lines |-> [k \in 1..Len(Syntaxes) |-> [syn |-> Syntaxes[k], ls |-> PairsOf(LinesOf(tr, Syntaxes[k]))]]])>>)
=============================================================================
