----------------------------- MODULE AbbrConvert -----------------------------
(* emmet.abbreviation.convert(): the token tree of AbbrSyntax.tla is turned  *)
(* into the unrolled node tree - transcribed function by function:           *)
(*   convert_statement : the copy loop (count = N, or 1 for `*` without wrap *)
(*     text), the stack of repeaters, the repeat guard (maxRepeat) that is   *)
(*     shared by all loops and leaves a loop after the copy that exhausts    *)
(*     it, the global `inserted` flag (set by a $# placeholder and after an  *)
(*     implicit repeater) and the empty text appended to the deepest last    *)
(*     node of a copy of an implicit repeater while the flag is not set      *)
(*   convert_element   : name, value, children, then attributes (in that     *)
(*     order - it is the order in which `inserted` changes); a text-only     *)
(*     node without fields gives its children to its parent                  *)
(*   convert_attribute : quotes / expression braces stripped and recorded as *)
(*     value type, trailing "." = boolean, leading "!" = implied             *)
(*   stringify         : escapes removed, $-numbering (padding, @base, @-,   *)
(*     ^ parent levels), fields kept as items of the value, $# = "" here     *)
(*     (no wrap text in this model: that part is AbbrWrap.tla)               *)
(* The result is printed as a flat pre-order listing [depth, name, value,    *)
(* attributes, self-closing] - what emmet.abbreviation.parse() returns.      *)
EXTENDS AbbrSyntax

CONSTANT RepeatLimit            \* maxRepeat; Unlimited == 1000000 as in the code
Unlimited == 1000000

PN == IF Parsed.kind = "ok" THEN Parsed.nodes ELSE <<>>
KidsOf(n) == SelectSeq([i \in 1..Len(PN) |-> i], LAMBDA i : PN[i].parent = n)
ERR == "<<ERR>>"
NONE == "<<NONE>>"
HasErr(x) == x = ERR

(* ------------------------------------------------------------- stringify *)
RECURSIVE Unesc(_, _)
Unesc(p, e) == IF p >= e THEN "" ELSE IF C(p) = "\\" THEN C(p+1) \o Unesc(p+2, e) ELSE C(p) \o Unesc(p+1, e)
RECURSIVE CountCh(_, _, _)
CountCh(p, e, ch) == IF p < e /\ C(p) = ch THEN 1 + CountCh(p+1, e, ch) ELSE 0
DigitOf(c) == CASE c = "0" -> 0 [] c = "1" -> 1 [] c = "2" -> 2 [] c = "3" -> 3 [] c = "4" -> 4 [] c = "5" -> 5
                [] c = "6" -> 6 [] c = "7" -> 7 [] c = "8" -> 8 [] OTHER -> 9
RECURSIVE DigitsVal(_, _, _)
DigitsVal(p, e, acc) == IF p >= e THEN acc ELSE DigitsVal(p+1, e, acc * 10 + DigitOf(C(p)))
RECURSIVE Zeros(_)
Zeros(n) == IF n <= 0 THEN "" ELSE "0" \o Zeros(n-1)
\* RepeaterNumber(): reps = stack of [count, value]
RepNumStr(tk, reps) ==
    LET size == CountCh(tk.s, tk.e, "$")
        at == tk.s + size
        hasAt == C(at) = "@"
        par == IF hasAt THEN CountCh(at+1, tk.e, "^") ELSE 0
        p2 == at + 1 + par
        rev == hasAt /\ C(p2) = "-"
        p3 == IF rev THEN p2 + 1 ELSE p2
        base == IF hasAt /\ p3 < tk.e THEN DigitsVal(p3, tk.e, 0) ELSE 1
        last == Len(reps)
        v0 == IF last = 0 THEN 1 ELSE IF rev THEN base + reps[last].count - reps[last].value - 1 ELSE base + reps[last].value
        pix == IF last - par < 1 THEN 1 ELSE last - par
        v == IF last > 0 /\ par > 0 /\ pix # last THEN v0 + reps[last].count * reps[pix].value ELSE v0
    IN IF v < 0 THEN "-" \o ToString(-v) ELSE Zeros(size - Len(ToString(v))) \o ToString(v)
FieldIdxEnd(tk) == EatWhile(tk.s + 2, "num")
FieldHasIdx(tk) == FieldIdxEnd(tk) > tk.s + 2
FieldIdx(tk) == DigitsVal(tk.s + 2, FieldIdxEnd(tk), 0)
FieldName(tk) == IF FieldHasIdx(tk) THEN (IF C(FieldIdxEnd(tk)) = ":" THEN Sub(FieldIdxEnd(tk) + 1, tk.e - 1) ELSE "")
                 ELSE Sub(tk.s + 2, tk.e - 1)
FieldText(i, nm) == IF nm # "" THEN "${" \o ToString(i) \o ":" \o nm \o "}" ELSE "${" \o ToString(i) \o "}"
Str(k, reps) == LET tk == Tk(k) IN
    CASE tk.t = "Literal" -> Unesc(tk.s, tk.e)
      [] tk.t = "RepeaterNumber" -> RepNumStr(tk, reps)
      [] tk.t = "RepeaterPlaceholder" -> ""                    \* get_text() without wrap text
      [] tk.t = "Field" -> (IF FieldHasIdx(tk) THEN FieldText(FieldIdx(tk), FieldName(tk)) ELSE FieldName(tk))   \* a variable without table: its name
      [] tk.t = "Repeater" -> ERR                              \* stringify() has no visitor for it
      [] OTHER -> Sub(tk.s, tk.e)                              \* Quote, Bracket, Operator, WhiteSpace: the source characters
RECURSIVE NameStr(_, _, _)
NameStr(a, b, reps) == IF a >= b THEN "" ELSE LET h == Str(a, reps) r == NameStr(a+1, b, reps) IN IF HasErr(h) \/ HasErr(r) THEN ERR ELSE h \o r
RECURSIVE HasRP(_, _)
HasRP(a, b) == a < b /\ (Tk(a).t = "RepeaterPlaceholder" \/ HasRP(a+1, b))
\* stringify_value(): list of items [f (is a field), i, s]
SItem(str) == [f |-> FALSE, i |-> 0, s |-> str]
RECURSIVE ValList(_, _, _, _, _)
ValList(a, b, reps, acc, cur) ==
    IF a >= b THEN (IF cur.has THEN Append(acc, SItem(cur.s)) ELSE acc)
    ELSE LET tk == Tk(a) IN
         IF tk.t = "Field" /\ FieldHasIdx(tk)
         THEN ValList(a+1, b, reps, Append((IF cur.has THEN Append(acc, SItem(cur.s)) ELSE acc), [f |-> TRUE, i |-> FieldIdx(tk), s |-> FieldName(tk)]), [has |-> FALSE, s |-> ""])
         ELSE LET h == Str(a, reps) IN
              IF HasErr(h) THEN <<SItem(ERR)>> ELSE ValList(a+1, b, reps, acc, [has |-> TRUE, s |-> cur.s \o h])
Val(a, b, reps) == ValList(a, b, reps, <<>>, [has |-> FALSE, s |-> ""])
ListErr(l) == \E i \in 1..Len(l) : ~l[i].f /\ l[i].s = ERR

(* ------------------------------------------------------------ attributes *)
ConvAttr(at, reps) ==
    LET nm0 == IF at.sh # "" THEN (IF SubSeq(at.sh, 1, 2) = "id" THEN "id" ELSE "class")
               ELSE IF at.name = <<>> THEN "" ELSE NameStr(at.name[1], at.name[2], reps)
        hasName == (at.sh # "" \/ at.name # <<>>) /\ nm0 # ""
        bool == hasName /\ ~HasErr(nm0) /\ SubSeq(nm0, Len(nm0), Len(nm0)) = "."
        nm1 == IF bool THEN SubSeq(nm0, 1, Len(nm0)-1) ELSE nm0
        impl == hasName /\ ~HasErr(nm0) /\ nm1 # "" /\ SubSeq(nm1, 1, 1) = "!"
        nm2 == IF impl THEN SubSeq(nm1, 2, Len(nm1)) ELSE nm1
        hasVal == at.value # <<>>
        va == IF hasVal THEN at.value[1] ELSE 0
        vb == IF hasVal THEN at.value[2] ELSE 0
        q == hasVal /\ IsQ(va)
        ex == hasVal /\ ~q /\ IsBr(va, "expression", "open")
        a2 == IF q \/ ex THEN va + 1 ELSE va
        b2 == IF q /\ vb - 1 >= a2 /\ IsQ(vb - 1) THEN vb - 1
              ELSE IF ex /\ vb - 1 >= a2 /\ IsBr(vb - 1, "expression", "close") THEN vb - 1 ELSE vb
        vt == IF q THEN (IF TC(va) = "'" THEN "singleQuote" ELSE "doubleQuote") ELSE IF ex THEN "expression" ELSE "raw"
        vl == IF hasVal THEN Val(a2, b2, reps) ELSE <<>>
    IN [bad |-> HasErr(nm0) \/ ListErr(vl),
        rp |-> (at.name # <<>> /\ HasRP(at.name[1], at.name[2])) \/ (hasVal /\ HasRP(a2, b2)),
        name |-> (IF HasErr(nm0) THEN NONE ELSE IF at.sh # "" \/ at.name # <<>> THEN nm2 ELSE NONE),
        hasval |-> hasVal, value |-> (IF ListErr(vl) THEN <<>> ELSE vl), vt |-> vt, bool |-> bool, impl |-> impl,
        mult |-> (at.sh \in {"id*", "class*"})]

(* ------------------------------------------------------------ statements *)
(* every function returns [items, guard, ins]: the nodes, the repeat guard and the `inserted` flag after it *)
RepCount(k) == LET tk == Tk(k) IN IF tk.e = tk.s + 1 THEN 1 ELSE (LET c == DigitsVal(tk.s + 1, tk.e, 0) IN IF c = 0 THEN 1 ELSE c)
RepImplicit(k) == Tk(k).e = Tk(k).s + 1
ERRNODE == [name |-> ERR, hasval |-> FALSE, value |-> <<>>, hasattrs |-> FALSE, attrs |-> <<>>, sc |-> FALSE, kids |-> <<>>]
NodesErr(l) == \E i \in 1..Len(l) : l[i].name = ERR
RECURSIVE ConvStmt(_, _, _, _), ConvOnce(_, _, _, _), ConvKids(_, _, _, _, _), ConvLoop(_, _, _, _, _, _, _), AppendEmptyText(_)
\* insert_text(deepest_node(items[-1]), "")
AppendEmptyText(items) ==
    IF items = <<>> THEN items
    ELSE LET lastI == items[Len(items)] IN
         IF lastI.name = ERR THEN items
         ELSE IF lastI.kids # <<>> THEN [items EXCEPT ![Len(items)].kids = AppendEmptyText(lastI.kids)]
         ELSE [items EXCEPT ![Len(items)] = [lastI EXCEPT !.hasval = TRUE,
                    !.value = IF lastI.value # <<>> /\ ~lastI.value[Len(lastI.value)].f THEN lastI.value ELSE Append(lastI.value, SItem(""))]]
ConvKids(ks, i, reps, guard, ins) ==
    IF i > Len(ks) THEN [items |-> <<>>, guard |-> guard, ins |-> ins]
    ELSE LET a == ConvStmt(ks[i], reps, guard, ins) b == ConvKids(ks, i+1, reps, a.guard, a.ins)
         IN [items |-> a.items \o b.items, guard |-> b.guard, ins |-> b.ins]
ConvOnce(n, reps, guard, ins) ==
    IF PN[n].kind = "g" THEN ConvKids(KidsOf(n), 1, reps, guard, ins)
    ELSE LET el == PN[n].el
             nm == IF el.hasname THEN NameStr(el.name[1], el.name[2], reps) ELSE NONE
             hasv == el.hasvalue /\ el.value # <<>> /\ el.value[2] > el.value[1]
             vl == IF hasv THEN Val(el.value[1], el.value[2], reps) ELSE <<>>
             ins2 == ins \/ (el.hasname /\ HasRP(el.name[1], el.name[2])) \/ (hasv /\ HasRP(el.value[1], el.value[2]))
             kids == ConvKids(KidsOf(n), 1, reps, guard, ins2)
             hasa == el.hasattrs /\ el.attrs # <<>>
             attrs == IF hasa THEN [i \in 1..Len(el.attrs) |-> ConvAttr(el.attrs[i], reps)] ELSE <<>>
             ins3 == kids.ins \/ \E i \in 1..Len(attrs) : attrs[i].rp
             bad == HasErr(nm) \/ ListErr(vl) \/ (\E i \in 1..Len(attrs) : attrs[i].bad) \/ NodesErr(kids.items)
             node == [name |-> (IF HasErr(nm) THEN "" ELSE nm), hasval |-> hasv, value |-> (IF ListErr(vl) THEN <<>> ELSE vl),
                      hasattrs |-> hasa, attrs |-> attrs, sc |-> el.sc, kids |-> kids.items]
             textOnly == ~el.hasname /\ ~hasa /\ hasv /\ ~(\E i \in 1..Len(vl) : vl[i].f)
         IN IF bad THEN [items |-> <<ERRNODE>>, guard |-> kids.guard, ins |-> ins3]
            ELSE IF textOnly THEN [items |-> <<[node EXCEPT !.kids = <<>>]>> \o kids.items, guard |-> kids.guard, ins |-> ins3]
            ELSE [items |-> <<node>>, guard |-> kids.guard, ins |-> ins3]
ConvLoop(n, reps, guard, ins, i, cnt, acc) ==
    LET rk == IF PN[n].kind = "g" THEN PN[n].rep[1] ELSE PN[n].el.rep[1]
        r == ConvOnce(n, Append(reps, [count |-> cnt, value |-> i]), guard, ins)
        items2 == IF RepImplicit(rk) /\ ~r.ins THEN AppendEmptyText(r.items) ELSE r.items
        g2 == r.guard - 1
    IN IF g2 <= 0 \/ i + 1 >= cnt THEN [items |-> acc \o items2, guard |-> g2, ins |-> r.ins \/ RepImplicit(rk)]
       ELSE ConvLoop(n, reps, g2, r.ins, i+1, cnt, acc \o items2)
ConvStmt(n, reps, guard, ins) ==
    LET rp == IF PN[n].kind = "g" THEN PN[n].rep ELSE PN[n].el.rep IN
    IF rp = <<>> THEN ConvOnce(n, reps, guard, ins) ELSE ConvLoop(n, reps, guard, ins, 0, RepCount(rp[1]), <<>>)

Converted == IF Parsed.kind # "ok" THEN [kind |-> Parsed.kind, pos |-> Parsed.pos, tree |-> <<>>]
             ELSE LET r == ConvKids(KidsOf(0), 1, <<>>, RepeatLimit, FALSE) IN
                  IF NodesErr(r.items) THEN [kind |-> "internal", pos |-> -1, tree |-> <<>>]
                  ELSE [kind |-> "ok", pos |-> -1, tree |-> r.items]

(* ----------------------------------------------- printed form of the result *)
RECURSIVE JoinVal(_)
JoinVal(vl) == IF vl = <<>> THEN "" ELSE (IF Head(vl).f THEN FieldText(Head(vl).i, Head(vl).s) ELSE Head(vl).s) \o JoinVal(Tail(vl))
OutA(a) == [name |-> a.name, hasval |-> a.hasval, value |-> JoinVal(a.value), vt |-> a.vt, bool |-> a.bool, impl |-> a.impl]
RECURSIVE Listing(_, _)
Listing(items, d) ==
    IF items = <<>> THEN <<>>
    ELSE LET h == Head(items) IN
         <<[d |-> d, name |-> h.name, text |-> JoinVal(h.value), sc |-> h.sc, attrs |-> [i \in 1..Len(h.attrs) |-> OutA(h.attrs[i])]]>>
         \o Listing(h.kids, d + 1) \o Listing(Tail(items), d)
ConvertOut == LET c == Converted IN [kind |-> c.kind, pos |-> c.pos, nodes |-> Listing(c.tree, 0)]
=============================================================================
