------------------------------- MODULE AbbrBem -------------------------------
(* The BEM addon (markup/addon/bem.py, option bem.enabled), transcribed on    *)
(* the transformed tree of AbbrPrint.tla (implicit names resolved, attributes *)
(* merged), node by node in document order as the transform pass runs it:     *)
(*   expand_class_names()    b__el_mod stands for b__el and _mod: a class is  *)
(*                           cut at its first "_" (unless it starts with "-") *)
(*   expand_short_notation() -el  -> <block>__el   (one block level up per    *)
(*                           further dash), _mod -> <block> and <block>_mod,  *)
(*                           -el_mod -> <block>__el and <block>__el_mod; any  *)
(*                           other class is kept; duplicates are dropped      *)
(*   get_block_name()        walks from the node (depth 1) or an ancestor     *)
(*                           (deeper) towards the root until a node has a     *)
(*                           block name; the BEM data of a node is fixed at   *)
(*                           its first lookup - during its own rewriting if   *)
(*                           one of its classes looks at the node itself,     *)
(*                           otherwise from its rewritten classes             *)
(*   find_block_name()       first class (before any -x / _x class) that      *)
(*                           starts with "letter-", else first that starts    *)
(*                           with a letter                                    *)
(* bem.element = "__", bem.modifier = "_", no context.  Class names are made  *)
(* of letters, digits, "-" and "_".                                           *)
(* PrintedBem == what expand(s, {'options': {'bem.enabled': True,             *)
(* 'output.format': False}}) returns.                                         *)
EXTENDS AbbrPrint

BAlnum(c) == IsAlpha(c) \/ IsDigit(c)
RECURSIVE BRun(_, _, _)
BRun(x, i, cls) ==        \* end (1-based, exclusive) of the run of characters of the class starting at i
    IF i <= Len(x) /\ ( (cls = "dash" /\ At(x, i) = "-") \/ (cls = "under" /\ At(x, i) = "_")
                        \/ (cls = "el" /\ (BAlnum(At(x, i)) \/ At(x, i) = "-"))
                        \/ (cls = "mod" /\ (BAlnum(At(x, i)) \/ At(x, i) = "-" \/ At(x, i) = "_")) )
    THEN BRun(x, i + 1, cls) ELSE i
\* re_element / re_modifier at the start of x: [n (number of marks), name, len (matched length)] or n = 0 for no match
MatchMark(x, mark) ==
    LET d == BRun(x, 1, IF mark = "-" THEN "dash" ELSE "under") IN
    IF d = 1 \/ ~BAlnum(At(x, d)) THEN [n |-> 0, name |-> "", len |-> 0]
    ELSE LET e == BRun(x, d + 1, IF mark = "-" THEN "el" ELSE "mod") IN [n |-> d - 1, name |-> SubSeq(x, d, e - 1), len |-> e - 1]
IsBemClass(x) == MatchMark(x, "-").n > 0 \/ MatchMark(x, "_").n > 0

RECURSIVE SplitWs(_, _, _)
SplitWs(x, cur, acc) == IF x = "" THEN (IF cur = "" THEN acc ELSE Append(acc, cur))
                        ELSE IF IsSpace(At(x, 1)) THEN SplitWs(Tail(x), "", IF cur = "" THEN acc ELSE Append(acc, cur))
                        ELSE SplitWs(Tail(x), cur \o At(x, 1), acc)
RECURSIVE Unique(_, _)
Unique(sq, acc) == IF sq = <<>> THEN acc
                   ELSE Unique(Tail(sq), IF \E i \in 1..Len(acc) : acc[i] = Head(sq) THEN acc ELSE Append(acc, Head(sq)))
\* find_block_name()
RECURSIVE FindCand(_, _)
FindCand(names, strict) == IF names = <<>> \/ IsBemClass(Head(names)) THEN ""
                           ELSE IF IsAlpha(At(Head(names), 1)) /\ (~strict \/ At(Head(names), 2) = "-") THEN Head(names)
                           ELSE FindCand(Tail(names), strict)
BlockOf(names) == IF FindCand(names, TRUE) # "" THEN FindCand(names, TRUE) ELSE FindCand(names, FALSE)

\* the class attribute of a node as bem reads it: the first attribute called class with a non-empty value
ClassIdx(n) == IF \E i \in 1..Len(n.attrs) : Named(n.attrs[i]) /\ n.attrs[i].name = "class" /\ Truthy(n.attrs[i])
               THEN CHOOSE i \in 1..Len(n.attrs) : Named(n.attrs[i]) /\ n.attrs[i].name = "class" /\ Truthy(n.attrs[i])
                                                   /\ \A j \in 1..(i - 1) : ~(Named(n.attrs[j]) /\ n.attrs[j].name = "class" /\ Truthy(n.attrs[j]))
               ELSE 0
ClassNames(n) == IF ClassIdx(n) = 0 THEN <<>> ELSE SplitWs(Tokens(n.attrs[ClassIdx(n)].value), "", <<>>)
\* update_class(): the first attribute called class takes the value
FirstClassAttr(n) == IF \E i \in 1..Len(n.attrs) : Named(n.attrs[i]) /\ n.attrs[i].name = "class"
                     THEN CHOOSE i \in 1..Len(n.attrs) : Named(n.attrs[i]) /\ n.attrs[i].name = "class" /\ \A j \in 1..(i - 1) : ~(Named(n.attrs[j]) /\ n.attrs[j].name = "class")
                     ELSE 0
SetClass(n, names) == IF names = <<>> \/ FirstClassAttr(n) = 0 THEN n
                      ELSE [n EXCEPT !.attrs[FirstClassAttr(n)].hasval = TRUE, !.attrs[FirstClassAttr(n)].value = <<SItem(JoinSeq(names, " "))>>]

\* expand_class_names()
RECURSIVE FirstUnder(_, _)
FirstUnder(x, i) == IF i > Len(x) THEN 0 ELSE IF At(x, i) = "_" THEN i ELSE FirstUnder(x, i + 1)
RECURSIVE Cut(_)
Cut(names) == IF names = <<>> THEN <<>>
              ELSE LET cl == Head(names) ix == FirstUnder(cl, 1) IN
                   (IF ix > 1 /\ At(cl, 1) # "-" THEN <<SubSeq(cl, 1, ix - 1), SubSeq(cl, ix, Len(cl))>> ELSE <<cl>>) \o Cut(Tail(names))

\* get_block_name(path, depth): blocks = block names ("" = none) of the path, the node itself last
RECURSIVE Walk(_, _)
Walk(blocks, ix) == IF ix < 1 THEN "" ELSE IF blocks[ix] # "" THEN blocks[ix] ELSE Walk(blocks, ix - 1)
BlockName(blocks, depth) == Walk(blocks, Max(Len(blocks) - depth, 0) + 1)

\* expand_short_notation() for one class
Short(cl, blocks) ==
    LET me == MatchMark(cl, "-")
        p1 == IF me.n > 0 THEN BlockName(blocks, me.n) \o "__" \o me.name ELSE ""
        r1 == IF me.n > 0 THEN SubSeq(cl, me.len + 1, Len(cl)) ELSE cl
        mm == MatchMark(r1, "_")
        p2 == IF mm.n > 0 /\ p1 = "" THEN BlockName(blocks, mm.n) ELSE p1        \* a falsy (empty) prefix is looked up again, as in the code
        r2 == IF mm.n > 0 THEN SubSeq(r1, mm.len + 1, Len(r1)) ELSE r1
    IN (IF me.n > 0 THEN <<p1>> ELSE <<>>)
       \o (IF mm.n > 0 THEN (IF p1 = "" THEN <<p2>> ELSE <<>>) \o <<p2 \o "_" \o mm.name>> ELSE <<>>)
       \o (IF r2 = cl THEN <<cl>> ELSE <<>>)
RECURSIVE ShortAll(_, _)
ShortAll(names, blocks) == IF names = <<>> THEN <<>> ELSE Short(Head(names), blocks) \o ShortAll(Tail(names), blocks)
\* does a class look at the node itself while the node is rewritten?  The walk starts at index max(len(path) - depth, 0): at the node
\* for depth 1, and also for any depth when the node has no ancestors
LooksAtSelf(cl, nanc) == LET me == MatchMark(cl, "-")
                             depth == IF me.n > 0 THEN me.n ELSE MatchMark(cl, "_").n
                         IN depth > 0 /\ (depth = 1 \/ nanc = 0)

RECURSIVE BemNodes(_, _), BemNode(_, _)
BemNode(n, blocks) ==          \* blocks: block names of the ancestors, outermost first
    LET names0 == ClassNames(n)
        names1 == IF names0 = <<>> THEN names0 ELSE Unique(Cut(names0), <<>>)
        n1 == SetClass(n, names1)
        own1 == BlockOf(names1)
        names2 == Unique(ShortAll(names1, Append(blocks, own1)), <<>>)
        n2 == SetClass(n1, names2)
        early == \E i \in 1..Len(names1) : LooksAtSelf(names1[i], Len(blocks))
        own == IF early THEN own1 ELSE BlockOf(ClassNames(n2))
    IN [n2 EXCEPT !.kids = BemNodes(n.kids, Append(blocks, own))]
BemNodes(items, blocks) == IF items = <<>> THEN <<>> ELSE <<BemNode(Head(items), blocks)>> \o BemNodes(Tail(items), blocks)
BemTransformed == BemNodes(Transformed, <<>>)
PrintedBem == PrintNodes(BemTransformed)
=============================================================================
