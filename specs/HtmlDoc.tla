------------------------------- MODULE HtmlDoc -------------------------------
(* C09 (and the ground truth for C17 / the prefixes for C16) - HTML matcher. *)
(*                                                                           *)
(* Generator: a document is built online from segments with fixed concrete   *)
(*   text - open tags with attribute strings containing ">" in quotes,       *)
(*   braces and unquoted values, boolean / *ng / #ref names, close tags,     *)
(*   self-closed tags, void elements, comment / CDATA / PI with tag-like     *)
(*   bodies, style / script with markup-like bodies, text with a stray ">".  *)
(*   It records the ground truth while writing: per element name, open range *)
(*   close range, depth, parent, attribute offsets; per tag the scan event.  *)
(* Machine  : match(), balanced_outward(), balanced_inward() as the code's   *)
(*   stack machines over the event sequence (early exit, first-child chain). *)
(* Contract : stated on the truth table only (strict containment, depth,     *)
(*   closing order), no stack.                                               *)
(* TLC checks machine = contract at EVERY position of every complete         *)
(* document, in HTML and in XML mode.                                        *)
EXTENDS Common, Json, HtmlScan

CONSTANTS MaxSeg, MaxDepth, SegIdx,
          XmlModes,      \* subset of BOOLEAN: which parser modes are generated
          \* generated segment families (all empty: only the fixed segments below are used)
          GenNames,      \* tag names for generated tags: ordinary, void (br, img) and special (script, style) ones
          GenAttrIdx,    \* which attribute parts (GenAttrs) they carry
          GenEnds,       \* how they end: ">", "/>", " />"
          GenBodyIdx,    \* bodies (GenBodies) of generated script / style elements
          GenOpaqueIdx,  \* comment / CDATA / processing instruction (GenOpaques) ...
          GenOBodyIdx    \* ... with these bodies (GenOBodies)

NONE == "<none>"
A(n, noff, v, voff) == [n |-> n, noff |-> noff, v |-> v, voff |-> voff]
Seg(kind, name, txt, attrs) == [kind |-> kind, name |-> name, txt |-> txt, attrs |-> attrs, body |-> 0]
(* kind: open | self | void | opaque | text | special (open+body+close in one piece; body = length of the open tag) *)
Segs == <<
  Seg("open", "a", "<a>", <<>>),
  Seg("open", "b", "<b c=\"d>e\">", <<A("c", 3, "\"d>e\"", 5)>>),
  Seg("open", "p", "<p k=l m>", <<A("k", 3, "l", 5), A("m", 7, NONE, 0)>>),
  Seg("open", "a", "<a x='>' {y}>", <<A("x", 3, "'>'", 5), A("{y}", 9, NONE, 0)>>),
  Seg("open", "b", "<b *ng=\"v\" #ref>", <<A("*ng", 3, "\"v\"", 7), A("#ref", 11, NONE, 0)>>),
  Seg("open", "p", "<p t={a>b}>", <<A("t", 3, "{a>b}", 5)>>),
  Seg("open", "script", "<script type=\"text/x\">", <<A("type", 8, "\"text/x\"", 13)>>),
  Seg("self", "a", "<a/>", <<>>),
  Seg("self", "b", "<b c=\"d\"/>", <<A("c", 3, "\"d\"", 5)>>),
  Seg("self", "p", "<p />", <<>>),
  Seg("void", "br", "<br>", <<>>),
  Seg("void", "img", "<img a=b>", <<A("a", 5, "b", 7)>>),
  Seg("opaque", "", "<!-- <a> -->", <<>>),
  Seg("opaque", "", "<![CDATA[<b>]]>", <<>>),
  Seg("opaque", "", "<?pi <p> ?>", <<>>),
  [Seg("special", "style", "<style>a>b{}</style>", <<>>) EXCEPT !.body = 7],
  [Seg("special", "script", "<script>if(a<b)\"</p>\"</script>", <<>>) EXCEPT !.body = 8],
  Seg("text", "", "t ", <<>>),
  Seg("text", "", "x > y", <<>>),
  Seg("open", "a", "<a class=\"x  y\">", <<A("class", 3, "\"x  y\"", 9)>>),
  Seg("open", "p", "<p class=z id='i'>", <<A("class", 3, "z", 9), A("id", 11, "'i'", 14)>>),
  Seg("self", "b", "<b class=\"\" d={e}/>", <<A("class", 3, "\"\"", 9), A("d", 12, "{e}", 14)>>),
  [Seg("special", "style", "<style></style>", <<>>) EXCEPT !.body = 7],
  [Seg("special", "script", "<script src=\"a\"></script>", <<A("src", 8, "\"a\"", 12)>>) EXCEPT !.body = 16],
  [Seg("special", "script", "<script>i<</script>", <<>>) EXCEPT !.body = 8],           \* the body ends in "<" right before the closing tag
  [Seg("special", "style", "<style>a</</style>", <<>>) EXCEPT !.body = 7],             \* ... in "</"
  Seg("open", "p", "<p k=l\n m=n\n>", <<A("k", 3, "l", 5), A("m", 8, "n", 10)>>),      \* a tag written over several lines, unquoted values end the lines
  Seg("open", "a", "<a x=y\r\nz>", <<A("x", 3, "y", 5), A("z", 8, NONE, 0)>>),
  Seg("open", "p", "<p class={s  tu}>", <<A("class", 3, "{s  tu}", 9)>>),                   \* class names inside an expression value
  Seg("self", "b", "<b id=a class={ s t }/>", <<A("id", 3, "a", 6), A("class", 8, "{ s t }", 14)>>),
  Seg("open", "a", "<a class=\"x\ty\n z\">", <<A("class", 3, "\"x\ty\n z\"", 9)>>),
  Seg("open", "b", "<b title=\"  \" class=\" \">", <<A("title", 3, "\"  \"", 9), A("class", 14, "\" \"", 20)>>),         \* 32: values made of blanks only (a value range, no class token)
  [Seg("special", "script", "<script>// it's</script>", <<>>) EXCEPT !.body = 8],        \* 33, 34: a lone quote in the body (a later tag may hold the next one)
  [Seg("special", "style", "<style>/* 5\" */</style>", <<>>) EXCEPT !.body = 7] >>

(* generated families: "<" name attribute-part end, script / style with a body and their closing tag, opaque sections *)
GenAttrs == << [txt |-> "", attrs |-> <<>>],
               [txt |-> " c=\"d>e\"", attrs |-> <<A("c", 1, "\"d>e\"", 3)>>],
               [txt |-> " k=l m", attrs |-> <<A("k", 1, "l", 3), A("m", 5, NONE, 0)>>],
               [txt |-> " x=\"it's\" y", attrs |-> <<A("x", 1, "\"it's\"", 3), A("y", 10, NONE, 0)>>],      \* the other kind of quote inside a value
               [txt |-> "\tw v='\"'", attrs |-> <<A("w", 1, NONE, 0), A("v", 3, "'\"'", 5)>>],              \* a tab before a boolean attribute
               [txt |-> " t={a>b}", attrs |-> <<A("t", 1, "{a>b}", 3)>>],
               [txt |-> "\n  r=s\n", attrs |-> <<A("r", 3, "s", 5)>>],
               [txt |-> " h=a=b&c=d", attrs |-> <<A("h", 1, "a=b&c=d", 3)>>],
               [txt |-> " a-b=\"c\" d=\"\"", attrs |-> <<A("a-b", 1, "\"c\"", 5), A("d", 9, "\"\"", 11)>>],                 \* 9: a name with a dash, an empty value
               [txt |-> " [x.y]=\"z\" :w v-on:k", attrs |-> <<A("[x.y]", 1, "\"z\"", 7), A(":w", 11, NONE, 0), A("v-on:k", 14, NONE, 0)>>] >>   \* 10: [..] : - . in names
GenBodies == <<"", "a<b", "x</", "i<", "</p>", "<!--", "if(a<b)\"</x>\"", "// it's", "/* 5\" */">>
GenOpaques == << <<"<!--", "-->">>, <<"<![CDATA[", "]]>">>, <<"<?", "?>">>, <<"<!DOCTYPE", ">">> >>
GenOBodies == <<" <a> ", "", "-", "]", "a[0]]", " x --", "?", ">", "<b>", " e \"-->]]>?><b>\" ">>   \* 10: every closer inside a quoted string
SpecialNames == {"script", "style"}
VoidNames == {"img", "meta", "link", "br", "base", "hr", "area", "wbr", "col", "embed", "input", "param", "source", "track"}
ShiftAttrs(attrs, by) == [k \in 1..Len(attrs) |-> [attrs[k] EXCEPT !.noff = @ + by, !.voff = IF attrs[k].v = NONE THEN 0 ELSE @ + by]]
MkTag(n, ai, e, kind) == Seg(kind, n, "<" \o n \o GenAttrs[ai].txt \o e, ShiftAttrs(GenAttrs[ai].attrs, 1 + Len(n)))
MkSpecial(n, ai, bi, e) == LET o == MkTag(n, ai, e, "special") IN [o EXCEPT !.txt = @ \o GenBodies[bi] \o "</" \o n \o ">", !.body = Len(o.txt)]
\* only a processing instruction skips quoted strings: body 10 is used as it is there, and without its string elsewhere
MkOpaque(oi, bi) == Seg("opaque", "", GenOpaques[oi][1] \o (IF oi = 4 THEN " html" ELSE IF bi = 10 /\ oi # 3 THEN " e " ELSE GenOBodies[bi]) \o GenOpaques[oi][2], <<>>)

VARIABLES doc, xml, elems, evs, open, nseg
vars == <<doc, xml, elems, evs, open, nseg>>
(* elems[i] = [name, os, oe, cs, ce (-1 while open / for ever for self-closed and void), depth, parent, attrs, kids]
   evs[j]   = [n, ty (1 open, 2 close, 3 self-close as reported by scan), s, e]
   open     = stack of element indices *)

Init == doc = "" /\ xml \in XmlModes /\ elems = <<>> /\ evs = <<>> /\ open = <<>> /\ nseg = 0

Off == Len(doc)
AbsAttrs(attrs) == [k \in 1..Len(attrs) |-> [attrs[k] EXCEPT !.noff = @ + Off, !.voff = IF attrs[k].v = NONE THEN 0 ELSE @ + Off]]
Parent == IF open = <<>> THEN 0 ELSE Last(open)
NewElem(sg, cs, ce) == [name |-> sg.name, os |-> Off, oe |-> Off + (IF sg.kind = "special" THEN sg.body ELSE Len(sg.txt)),
                        cs |-> cs, ce |-> ce, depth |-> Len(open), parent |-> Parent, attrs |-> AbsAttrs(sg.attrs)]
Ev(n, ty, a, b) == [n |-> n, ty |-> ty, s |-> a, e |-> b]

Write(sg) == /\ nseg < MaxSeg /\ nseg' = nseg + 1 /\ doc' = doc \o sg.txt /\ UNCHANGED xml
OpenSeg(sg) == /\ Write(sg) /\ Len(open) < MaxDepth
               /\ elems' = Append(elems, NewElem(sg, -1, -1))
               /\ evs' = Append(evs, Ev(sg.name, 1, Off, Off + Len(sg.txt)))
               /\ open' = Append(open, Len(elems) + 1)
LeafSeg(sg, ty) == /\ Write(sg)
                   /\ elems' = Append(elems, NewElem(sg, -1, -1))
                   /\ evs' = Append(evs, Ev(sg.name, ty, Off, Off + Len(sg.txt)))
                   /\ UNCHANGED open
SpecialSeg(sg) == /\ Write(sg)
                  /\ LET cl == Len(sg.name) + 3 IN          \* length of "</name>"
                     /\ elems' = Append(elems, NewElem(sg, Off + Len(sg.txt) - cl, Off + Len(sg.txt)))
                     /\ evs' = evs \o <<Ev(sg.name, 1, Off, Off + sg.body), Ev(sg.name, 2, Off + Len(sg.txt) - cl, Off + Len(sg.txt))>>
                  /\ UNCHANGED open
PlainSeg(sg) == Write(sg) /\ UNCHANGED <<elems, evs, open>>
CloseSeg == /\ open # <<>> /\ nseg < MaxSeg /\ nseg' = nseg + 1
            /\ \E sp \in {""} :          \* no blank before the ">" of a closing tag: scan() reports "</a >" as no tag (tests/html_matcher/test_scan.py pins that)
               LET i == Last(open)
                   t == "</" \o elems[i].name \o sp \o ">"
               IN /\ doc' = doc \o t
                  /\ elems' = [elems EXCEPT ![i].cs = Off, ![i].ce = Off + Len(t)]
                  /\ evs' = Append(evs, Ev(elems[i].name, 2, Off, Off + Len(t)))
            /\ open' = Front(open) /\ UNCHANGED xml
Next == \/ CloseSeg
        \/ \E k \in SegIdx : LET sg == Segs[k] IN
              CASE sg.kind = "open" -> OpenSeg(sg)
                [] sg.kind = "self" -> LeafSeg(sg, 3)
                [] sg.kind = "void" -> IF xml THEN OpenSeg(sg) ELSE LeafSeg(sg, 1)     \* in XML mode a void name is an ordinary element
                [] sg.kind = "special" -> SpecialSeg(sg)
                [] OTHER -> PlainSeg(sg)
GenNext == \/ \E n \in GenNames, ai \in GenAttrIdx, e \in GenEnds :
                IF e \in {"/>", " />"} THEN LeafSeg(MkTag(n, ai, e, "self"), 3)
                ELSE IF n \in SpecialNames THEN \E bi \in GenBodyIdx : SpecialSeg(MkSpecial(n, ai, bi, e))
                ELSE IF n \in VoidNames /\ ~xml THEN LeafSeg(MkTag(n, ai, e, "void"), 1)
                ELSE OpenSeg(MkTag(n, ai, e, "open"))
           \/ \E oi \in GenOpaqueIdx, bi \in GenOBodyIdx : PlainSeg(MkOpaque(oi, bi))
Spec == Init /\ [][Next \/ GenNext]_vars
Complete == open = <<>> /\ nseg > 0

(* --------------------------------------------------------------- contract *)
EndOf(i) == IF elems[i].ce = -1 THEN elems[i].oe ELSE elems[i].ce
Enclosing(pos) == {i \in 1..Len(elems) : elems[i].os < pos /\ pos < EndOf(i)}
Deepest(S) == CHOOSE i \in S : \A j \in S : elems[j].depth <= elems[i].depth
RECURSIVE ByDepthDesc(_)
ByDepthDesc(S) == IF S = {} THEN <<>> ELSE LET m == Deepest(S) IN <<m>> \o ByDepthDesc(S \ {m})
CMatch(pos) == LET E == Enclosing(pos) IN IF E = {} THEN 0 ELSE Deepest(E)
COutward(pos) == ByDepthDesc(Enclosing(pos))
Contains(i, pos) == IF elems[i].ce # -1 THEN elems[i].os <= pos /\ pos <= elems[i].ce ELSE elems[i].os < pos /\ pos < elems[i].oe
FirstKid(i) == LET K == {j \in 1..Len(elems) : elems[j].parent = i} IN IF K = {} THEN 0 ELSE CHOOSE j \in K : \A k \in K : j <= k
RECURSIVE KidChain(_)
KidChain(i) == IF FirstKid(i) = 0 THEN <<>> ELSE <<FirstKid(i)>> \o KidChain(FirstKid(i))
CInward(pos) == LET S == {i \in 1..Len(elems) : Contains(i, pos)} IN
                IF S = {} THEN <<>>
                ELSE LET f == CHOOSE i \in S : \A j \in S : EndOf(i) <= EndOf(j) IN <<f>> \o KidChain(f)

(* ---------------------------------------------------------------- machine *)
(* events as the matcher sees them: an Open event of a void name is a self-close in HTML mode *)
Ty(ev) == IF ev.ty = 1 /\ ~xml /\ ev.n \in VoidNames THEN 3 ELSE ev.ty
ElemAt(a) == CHOOSE i \in 1..Len(elems) : elems[i].os = a          \* element whose open tag starts at a
RECURSIVE MMatch(_, _, _)
MMatch(i, stack, pos) ==           \* stack of open events
    IF i > Len(evs) THEN 0
    ELSE LET ev == evs[i] t == Ty(ev) IN
         IF t = 1 THEN MMatch(i + 1, Append(stack, ev), pos)
         ELSE IF t = 3 THEN (IF ev.s < pos /\ pos < ev.e THEN ElemAt(ev.s) ELSE MMatch(i + 1, stack, pos))
         ELSE IF stack # <<>> /\ Last(stack).n = ev.n
              THEN (IF Last(stack).s < pos /\ pos < ev.e THEN ElemAt(Last(stack).s) ELSE MMatch(i + 1, Front(stack), pos))
         ELSE MMatch(i + 1, stack, pos)
RECURSIVE MOut(_, _, _, _)
MOut(i, stack, pos, acc) ==
    IF i > Len(evs) THEN acc
    ELSE LET ev == evs[i] t == Ty(ev) IN
         IF ev.ty = 2 THEN (IF stack # <<>> /\ Last(stack).n = ev.n
                            THEN MOut(i + 1, Front(stack), pos, IF Last(stack).s < pos /\ pos < ev.e THEN Append(acc, ElemAt(Last(stack).s)) ELSE acc)
                            ELSE MOut(i + 1, stack, pos, acc))
         ELSE IF t = 3 THEN MOut(i + 1, stack, pos, IF ev.s < pos /\ pos < ev.e THEN Append(acc, ElemAt(ev.s)) ELSE acc)
         ELSE MOut(i + 1, Append(stack, ev), pos, acc)
(* balanced_inward: stack entries [s, fc] - open-tag start and the recorded first child (0 = none); fcOf maps an element
   start to its own recorded first child, so that the chain can be followed after the element was popped *)
RECURSIVE Chain(_, _)
Chain(fcOf, a) == IF fcOf[a] = -1 THEN <<>> ELSE <<ElemAt(fcOf[a])>> \o Chain(fcOf, fcOf[a])
RECURSIVE MIn(_, _, _, _)
MIn(i, stack, fcOf, pos) ==        \* stack: sequence of open-tag starts; fcOf: [0..Len(doc) -> start of first child or -1]
    IF i > Len(evs) THEN <<>>
    ELSE LET ev == evs[i] t == Ty(ev) IN
         IF ev.ty = 2
         THEN IF stack = <<>> THEN MIn(i + 1, stack, fcOf, pos)
              ELSE LET top == Last(stack) IN
                   IF elems[ElemAt(top)].name = ev.n
                   THEN IF top <= pos /\ pos <= ev.e THEN <<ElemAt(top)>> \o Chain(fcOf, top)
                        ELSE LET st2 == Front(stack)
                                 f2 == IF st2 # <<>> /\ fcOf[Last(st2)] = -1 THEN [fcOf EXCEPT ![Last(st2)] = top] ELSE fcOf
                             IN MIn(i + 1, st2, f2, pos)
                   ELSE MIn(i + 1, stack, fcOf, pos)
         ELSE IF t = 3
         THEN IF ev.s < pos /\ pos < ev.e THEN <<ElemAt(ev.s)>>
              ELSE MIn(i + 1, stack, IF stack # <<>> /\ fcOf[Last(stack)] = -1 THEN [fcOf EXCEPT ![Last(stack)] = ev.s] ELSE fcOf, pos)
         ELSE MIn(i + 1, Append(stack, ev.s), fcOf, pos)
MInward(pos) == MIn(1, <<>>, [a \in 0..Len(doc) |-> -1], pos)

Positions == 0..Len(doc)
MatchInv == Complete => \A pos \in Positions : MMatch(1, <<>>, pos) = CMatch(pos)
OutwardInv == Complete => \A pos \in Positions : MOut(1, <<>>, pos, <<>>) = COutward(pos)
InwardInv == Complete => \A pos \in Positions : MInward(pos) = CInward(pos)
\* ranges of the truth slice to the tags
TruthInv == \A i \in 1..Len(elems) : /\ SubSeq(doc, elems[i].os + 1, elems[i].os + 1) = "<"
                                     /\ SubSeq(doc, elems[i].oe, elems[i].oe) = ">"
                                     /\ (elems[i].ce # -1 => SubSeq(doc, elems[i].cs + 1, elems[i].cs + 2) = "</" /\ SubSeq(doc, elems[i].ce, elems[i].ce) = ">")
                                     /\ \A k \in 1..Len(elems[i].attrs) : LET a == elems[i].attrs[k] IN
                                           /\ SubSeq(doc, a.noff + 1, a.noff + Len(a.n)) = a.n
                                           /\ (a.v # NONE => SubSeq(doc, a.voff + 1, a.voff + Len(a.v)) = a.v)

(* the character-level scanner (HtmlScan.tla, transcribed from scan.py / attributes.py) reads every generated document back
   to exactly the recorded events and attribute table: scanner machine = generator's truth *)
ScanInv == Complete => HScan(doc) = evs
AttrInv == Complete => \A i \in 1..Len(elems) :
              LET got == HTagAttributes(doc, elems[i].os, elems[i].oe, elems[i].name)
                  exp == elems[i].attrs
              IN /\ Len(got) = Len(exp)
                 /\ \A k \in 1..Len(exp) : /\ got[k].n = exp[k].n /\ got[k].ns = exp[k].noff /\ got[k].ne = exp[k].noff + Len(exp[k].n)
                                            /\ (exp[k].v = NONE => got[k].v = HNone)
                                            /\ (exp[k].v # NONE => got[k].v = exp[k].v /\ got[k].vs = exp[k].voff /\ got[k].ve = exp[k].voff + Len(exp[k].v))

(* ------------------------------------------- editor action helpers (C17) *)
(* tags = open / self-closing tags in document order (elems is in that order) *)
Pushr(acc, r) == IF r[1] = r[2] \/ (acc # <<>> /\ Last(acc) = r) THEN acc ELSE Append(acc, r)
ValueRange(a) == LET c == SubSeq(a.v, 1, 1) z == SubSeq(a.v, Len(a.v), Len(a.v)) IN
                 IF c = "\"" \/ c = "'" THEN <<a.voff + 1, a.voff + Len(a.v) - (IF z = c THEN 1 ELSE 0)>>
                 ELSE IF c = "{" /\ z = "}" THEN <<a.voff + 1, a.voff + Len(a.v) - 1>>
                 ELSE <<a.voff, a.voff + Len(a.v)>>
RECURSIVE Words(_, _, _, _)
Words(a, b, start, acc) ==            \* white-space separated words of doc[a..b), start = -1 outside a word
    IF a >= b THEN (IF start = -1 THEN acc ELSE Append(acc, <<start, b>>))
    ELSE IF IsSpace(SubSeq(doc, a + 1, a + 1)) THEN Words(a + 1, b, -1, IF start = -1 THEN acc ELSE Append(acc, <<start, a>>))
    ELSE Words(a + 1, b, IF start = -1 THEN a ELSE start, acc)
RECURSIVE PushAll(_, _)
PushAll(acc, rs) == IF rs = <<>> THEN acc ELSE PushAll(Pushr(acc, Head(rs)), Tail(rs))
RECURSIVE AttrRanges(_, _, _)
AttrRanges(attrs, k, acc) ==
    IF k > Len(attrs) THEN acc
    ELSE LET a == attrs[k] IN
         IF a.v = NONE THEN AttrRanges(attrs, k + 1, Pushr(acc, <<a.noff, a.noff + Len(a.n)>>))
         ELSE LET acc1 == Pushr(acc, <<a.noff, a.voff + Len(a.v)>>)
                  vr == ValueRange(a)
                  acc2 == IF vr[1] # vr[2] THEN Pushr(acc1, vr) ELSE acc1
                  acc3 == IF vr[1] # vr[2] /\ a.n = "class" THEN PushAll(acc2, Words(vr[1], vr[2], -1, <<>>)) ELSE acc2
              IN AttrRanges(attrs, k + 1, acc3)
SelRanges(i) == AttrRanges(elems[i].attrs, 1, << <<elems[i].os + 1, elems[i].os + 1 + Len(elems[i].name)>> >>)
OpenTagAt(pos) == LET S == {i \in 1..Len(elems) : elems[i].os < pos /\ pos < elems[i].oe} IN IF S = {} THEN 0 ELSE CHOOSE i \in S : TRUE
InClosingTag(pos) == \E i \in 1..Len(elems) : elems[i].ce # -1 /\ elems[i].cs < pos /\ pos < elems[i].ce
NextTag(pos) == LET S == {i \in 1..Len(elems) : elems[i].oe > pos} IN IF S = {} THEN 0 ELSE CHOOSE i \in S : \A j \in S : i <= j
PrevTag(pos) == LET S == {i \in 1..Len(elems) : elems[i].os < pos} IN IF S = {} THEN 0 ELSE CHOOSE i \in S : \A j \in S : j <= i
\* every selection range lies inside its tag, is not empty and differs from its predecessor
SelInv == \A i \in 1..Len(elems) : LET rs == SelRanges(i) IN
             \A k \in 1..Len(rs) : /\ elems[i].os < rs[k][1] /\ rs[k][1] < rs[k][2] /\ rs[k][2] < elems[i].oe
                                    /\ (k > 1 => rs[k] # rs[k - 1])
\* next / previous walk the same sequence of tags in opposite directions
NextPrevInv == \A i \in 1..Len(elems) : /\ NextTag(elems[i].oe) = (IF i < Len(elems) THEN i + 1 ELSE 0)
                                         /\ PrevTag(elems[i].os) = i - 1
                                         /\ PrevTag(elems[i].oe) = i /\ NextTag(elems[i].os) = i
DumpActions == Complete => PrintT(<<"VEC", ToJson([doc |-> doc, elems |-> elems, sel |-> [i \in 1..Len(elems) |-> SelRanges(i)],
          at |-> [p \in 1..(Len(doc) + 1) |-> [t |-> OpenTagAt(p - 1), c |-> InClosingTag(p - 1), n |-> NextTag(p - 1), p |-> PrevTag(p - 1)]]])>>)

Dump == Complete => PrintT(<<"VEC", ToJson([doc |-> doc, xml |-> xml, elems |-> elems, evs |-> evs,
                                             at |-> [p \in 1..(Len(doc) + 1) |-> [m |-> CMatch(p - 1), o |-> COutward(p - 1), i |-> CInward(p - 1)]]])>>)
=============================================================================
