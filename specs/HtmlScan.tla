------------------------------ MODULE HtmlScan ------------------------------
(* emmet.html_matcher: scan() and attributes(), transcribed branch by branch *)
(* as functions of a source string (0-based positions as in the code).      *)
(*   scanner_utils : eat_quoted (escape = backslash, throws off), eat_pair   *)
(*   utils         : consume_array, consume_section (unclosed allowed),      *)
(*                   ident, name_start_char / name_char (ASCII part),        *)
(*                   consume_paired, is_unquoted, is_terminator              *)
(*   attributes    : attribute_name (directive, paired, ident),            *)
(*                   attribute_value (quoted, paired, unquoted),             *)
(*                   attributes(src) / attributes(src, name), get_attribute_ *)
(*                   value + get_unquoted_value                              *)
(*   scan          : cdata / comment / processing_instruction (which skips   *)
(*                   quoted strings), tag = "<" ["/"] ident [attributes]     *)
(*                   [blank] ["/"] ">", skip_attributes, is_special with the *)
(*                   default table (style always, script by its type),       *)
(*                   consume_closing for the body of a special element       *)
(* No state: every operator takes the source as an argument, so that the     *)
(* document generator HtmlDoc.tla (scanner machine = recorded truth) and the *)
(* all-strings instance HtmlScanMC.tla (range / shape / order invariants of  *)
(* C16 on the model, model-vs-code comparison of every event) share it.      *)
(* Characters outside ASCII (the XML name ranges, the no-break space) are    *)
(* outside the model's alphabets.                                            *)
EXTENDS Common

HCh(src, p, end) == IF p >= 0 /\ p < end /\ p < Len(src) THEN SubSeq(src, p + 1, p + 1) ELSE ""      \* Scanner.peek()
HQuote(c) == c = "\"" \/ c = "'"
HNameStart(c) == IsAlpha(c) \/ c = ":" \/ c = "_"
HNameChar(c) == HNameStart(c) \/ c = "-" \/ c = "." \/ IsDigit(c)
HTerminator(c) == c = ">" \/ c = "/"
HUnquoted(c) == c # "" /\ ~HQuote(c) /\ ~IsSpace(c) /\ ~HTerminator(c)

RECURSIVE HEatWhile(_, _, _, _)
HEatWhile(src, p, end, cls) ==
    LET c == HCh(src, p, end) IN
    IF p < end /\ c # "" /\ ((cls = "space" /\ IsSpace(c)) \/ (cls = "name" /\ HNameChar(c)) \/ (cls = "unquoted" /\ HUnquoted(c)))
    THEN HEatWhile(src, p + 1, end, cls) ELSE p

(* every consumer returns the new position; "not consumed" = the position it was called with *)

\* eat_quoted(scanner, {'throws': False})
RECURSIVE HQuotedLoop(_, _, _, _)
HQuotedLoop(src, i, end, q) ==
    IF i >= end THEN -1
    ELSE LET c == HCh(src, i, end) IN
         IF c = q THEN i + 1
         ELSE IF c = "\\" THEN HQuotedLoop(src, i + 2, end, q)          \* eat(escape), then pos += 1
         ELSE HQuotedLoop(src, i + 1, end, q)
HEatQuoted(src, p, end) ==
    LET q == HCh(src, p, end) IN
    IF ~HQuote(q) THEN p
    ELSE LET r == HQuotedLoop(src, p + 1, end, q) IN IF r = -1 THEN p ELSE r

\* eat_pair(scanner, open, close, {'throws': False})
RECURSIVE HPairLoop(_, _, _, _, _, _)
HPairLoop(src, i, end, o, c, depth) ==
    IF i >= end THEN -1
    ELSE LET q == HEatQuoted(src, i, end) IN
         IF q > i THEN HPairLoop(src, q, end, o, c, depth)
         ELSE LET ch == HCh(src, i, end) IN
              IF ch = o THEN HPairLoop(src, i + 1, end, o, c, depth + 1)
              ELSE IF ch = c THEN (IF depth = 1 THEN i + 1 ELSE HPairLoop(src, i + 1, end, o, c, depth - 1))
              ELSE IF ch = "\\" THEN HPairLoop(src, i + 2, end, o, c, depth)
              ELSE HPairLoop(src, i + 1, end, o, c, depth)
HEatPair(src, p, end, o, c) ==
    IF HCh(src, p, end) # o THEN p
    ELSE LET r == HPairLoop(src, p + 1, end, o, c, 1) IN IF r = -1 THEN p ELSE r
HCloserOf(o) == CASE o = "<" -> ">" [] o = "(" -> ")" [] o = "[" -> "]" [] o = "{" -> "}" [] OTHER -> ""
HConsumePaired(src, p, end) ==
    LET o == HCh(src, p, end) IN IF HCloserOf(o) = "" THEN p ELSE HEatPair(src, p, end, o, HCloserOf(o))

HIdent(src, p, end) == IF HNameStart(HCh(src, p, end)) THEN HEatWhile(src, p + 1, end, "name") ELSE p

HAttrName(src, p, end) ==
    IF HCh(src, p, end) \in {"*", "#"} THEN HIdent(src, p + 1, end)          \* the directive mark alone is a name
    ELSE LET r == HConsumePaired(src, p, end) IN IF r > p THEN r ELSE HIdent(src, p, end)
HAttrNameOk(src, p, end) == HAttrName(src, p, end) > p

HAttrValue(src, p, end) ==
    LET q == HEatQuoted(src, p, end) IN
    IF q > p THEN q
    ELSE LET r == HConsumePaired(src, p, end) IN
         IF r > p THEN r ELSE HEatWhile(src, p, end, "unquoted")

\* consume_array
HLit(src, p, end, lit) == IF p + Len(lit) <= end /\ p + Len(lit) <= Len(src) /\ SubSeq(src, p + 1, p + Len(lit)) = lit THEN p + Len(lit) ELSE p
\* consume_section(scanner, prefix, suffix, True)
RECURSIVE HSectionLoop(_, _, _, _)
HSectionLoop(src, i, end, suffix) ==
    IF i >= end THEN i                                              \* unclosed section is allowed: it runs to the end
    ELSE IF HLit(src, i, end, suffix) > i THEN i + Len(suffix)
    ELSE HSectionLoop(src, i + 1, end, suffix)
HSection(src, p, end, prefix, suffix) ==
    IF HLit(src, p, end, prefix) = p THEN p ELSE HSectionLoop(src, p + Len(prefix), end, suffix)
\* processing_instruction: "<?" ... "?>", quoted strings inside are skipped as a whole
RECURSIVE HPiLoop(_, _, _)
HPiLoop(src, i, end) ==
    IF i >= end THEN i
    ELSE IF HLit(src, i, end, "?>") > i THEN i + 2
    ELSE LET q == HEatQuoted(src, i, end) IN HPiLoop(src, IF q > i THEN q ELSE i + 1, end)
HPi(src, p, end) == IF HLit(src, p, end, "<?") = p THEN p ELSE HPiLoop(src, p + 2, end)

\* skip_attributes; the position may be end + 1 afterwards (as in the code)
RECURSIVE HSkipAttrs(_, _, _)
HSkipAttrs(src, p, end) ==
    IF p >= end THEN p
    ELSE LET j == HEatWhile(src, p, end, "space")
             an == HAttrName(src, j, end)
         IN IF an > j THEN (IF HCh(src, an, end) = "=" THEN HSkipAttrs(src, HAttrValue(src, an + 1, end), end) ELSE HSkipAttrs(src, an, end))
            ELSE IF HTerminator(HCh(src, j, end)) THEN j
            ELSE HSkipAttrs(src, j + 1, end)

(* attributes(src) on src[a:b]: sequence of [n, ns, ne, v (or "<none>"), vs, ve] *)
HNone == "<none>"
RECURSIVE HAttrLoop(_, _, _, _)
HAttrLoop(src, p, end, acc) ==
    IF p >= end THEN acc
    ELSE LET j == HEatWhile(src, p, end, "space")
             an == HAttrName(src, j, end)
         IN IF an > j
            THEN LET av == IF HCh(src, an, end) = "=" THEN HAttrValue(src, an + 1, end) ELSE an
                     hasv == HCh(src, an, end) = "=" /\ av > an + 1
                     tok == [n |-> SubSeq(src, j + 1, an), ns |-> j, ne |-> an,
                             v |-> IF hasv THEN SubSeq(src, an + 2, av) ELSE HNone,
                             vs |-> IF hasv THEN an + 1 ELSE -1, ve |-> IF hasv THEN av ELSE -1]
                 IN HAttrLoop(src, (IF HCh(src, an, end) = "=" THEN av ELSE an), end, Append(acc, tok))
            ELSE HAttrLoop(src, j + 1, end, acc)
HAttributes(src, a, b) == HAttrLoop(src, a, b, <<>>)
\* get_unquoted_value
HUnquote(v) == LET v1 == IF v # "" /\ HQuote(SubSeq(v, 1, 1)) THEN SubSeq(v, 2, Len(v)) ELSE v
               IN IF v1 # "" /\ HQuote(SubSeq(v1, Len(v1), Len(v1))) THEN SubSeq(v1, 1, Len(v1) - 1) ELSE v1
\* get_attribute_value(attrs, 'type') or ''  (the first attribute called type decides)
RECURSIVE HTypeOf(_, _)
HTypeOf(attrs, k) == IF k > Len(attrs) THEN ""
                     ELSE IF attrs[k].n = "type" THEN (IF attrs[k].v = HNone \/ attrs[k].v = "" THEN "" ELSE HUnquote(attrs[k].v))
                     ELSE HTypeOf(attrs, k + 1)
ScriptTypes == {"", "text/javascript", "application/x-javascript", "javascript", "typescript", "ts", "coffee", "coffeescript"}
\* is_special with the default table, on the tag src[start:end)
HIsSpecial(src, name, start, end) ==
    \/ name = "style"
    \/ name = "script" /\ HTypeOf(HAttributes(src, start + Len(name) + 1, end - 1), 1) \in ScriptTypes

\* the body of a special element: position of the closing tag "</name>" or -1
RECURSIVE HFindClosing(_, _, _)
HFindClosing(src, i, name) ==
    IF i >= Len(src) THEN -1
    ELSE IF HLit(src, i, Len(src), "</" \o name \o ">") > i THEN i
    ELSE HFindClosing(src, i + 1, name)

HEv(n, ty, a, b) == [n |-> n, ty |-> ty, s |-> a, e |-> b]
RECURSIVE HScanLoop(_, _, _)
HScanLoop(src, p, acc) ==
    LET end == Len(src) IN
    IF p >= end THEN acc
    ELSE LET sec == HSection(src, p, end, "<![CDATA[", "]]>") IN
    IF sec > p THEN HScanLoop(src, sec, acc)
    ELSE LET com == HSection(src, p, end, "<!--", "-->") IN
    IF com > p THEN HScanLoop(src, com, acc)
    ELSE LET pi == HPi(src, p, end) IN
    IF pi > p THEN HScanLoop(src, pi, acc)
    ELSE IF HCh(src, p, end) # "<" THEN HScanLoop(src, p + 1, acc)
    ELSE LET closing == HCh(src, p + 1, end) = "/"
             ns == IF closing THEN p + 2 ELSE p + 1
             ne == HIdent(src, ns, end)
         IN IF ne = ns THEN HScanLoop(src, ns, acc)
            ELSE LET a1 == IF closing THEN ne ELSE HEatWhile(src, HSkipAttrs(src, ne, end), end, "space")
                     selfc == ~closing /\ HCh(src, a1, end) = "/"
                     a2 == IF selfc THEN a1 + 1 ELSE a1
                 IN IF HCh(src, a2, end) # ">" THEN HScanLoop(src, a2, acc)
                    ELSE LET name == SubSeq(src, ns + 1, ne)
                             ty == IF closing THEN 2 ELSE IF selfc THEN 3 ELSE 1
                             acc1 == Append(acc, HEv(name, ty, p, a2 + 1))
                         IN IF ty = 1 /\ HIsSpecial(src, name, p, a2 + 1)
                            THEN LET c == HFindClosing(src, a2 + 1, name) IN
                                 IF c = -1 THEN acc1                                  \* the rest of the document is the body
                                 ELSE HScanLoop(src, c + Len(name) + 3, Append(acc1, HEv(name, 2, c, c + Len(name) + 3)))
                            ELSE HScanLoop(src, a2 + 1, acc1)
HScan(src) == HScanLoop(src, 0, <<>>)

(* attributes of an open tag as match() reports them: attributes(src[start:end], name) *)
HTagAttributes(src, start, end, name) ==
    LET b == IF SubSeq(src, end - 1, end) = "/>" THEN end - 2 ELSE end - 1
    IN HAttributes(src, start + Len(name) + 1, b)

(* ------------------------------------------------ what C16 says of scan() *)
HRangeOk(src, evs) == \A k \in 1..Len(evs) : 0 <= evs[k].s /\ evs[k].s <= evs[k].e /\ evs[k].e <= Len(src)
HShapeOk(src, evs) == \A k \in 1..Len(evs) : LET ev == evs[k] pre == IF ev.ty = 2 THEN "</" ELSE "<" IN
                         /\ ev.e - ev.s >= Len(pre) + Len(ev.n) + 1
                         /\ SubSeq(src, ev.s + 1, ev.s + Len(pre) + Len(ev.n)) = pre \o ev.n
                         /\ SubSeq(src, ev.e, ev.e) = ">"
HOrderOk(evs) == \A k \in 1..(Len(evs) - 1) : evs[k].e <= evs[k + 1].s
HAttrsOk(src, a, b, attrs) == \A k \in 1..Len(attrs) : LET t == attrs[k] IN
                         /\ a <= t.ns /\ t.ns < t.ne /\ t.ne <= b /\ SubSeq(src, t.ns + 1, t.ne) = t.n
                         /\ (t.v # HNone => t.ne < t.vs /\ t.vs < t.ve /\ t.ve <= b /\ SubSeq(src, t.vs + 1, t.ve) = t.v)
                         /\ (k > 1 => attrs[k - 1].ne <= t.ns /\ (attrs[k - 1].v # HNone => attrs[k - 1].ve <= t.ns))
=============================================================================
