---------------------------- MODULE Trace_Session ----------------------------
(* C08 - validation of recorded call histories of the real code against      *)
(* Session.tla.  A trace is one history executed in one interpreter; an      *)
(* event is one expand() call with what could be observed when it returned:  *)
(*   texts   the state of the 'text' entry of every caller object            *)
(*           ("T" as supplied, "absent", "None", "other")                    *)
(*   same    every caller object still deep-equals its initial value         *)
(*   fresh   the result (value or raised parse error) equals the result of   *)
(*           the same call in a fresh interpreter                            *)
(*   live    number of per-call library objects still alive after the call   *)
(*   tables  every module-level table of the library (dict / list / set of   *)
(*           an emmet module) still equals its value at import time          *)
(* The spec performs the call with Session's own actions (internal steps are *)
(* not observable and are taken silently between two logged events) and the  *)
(* logged observation must equal the state the spec arrives in.              *)
EXTENDS Session, IOUtils

Traces == ndJsonDeserialize(IOEnv.TRACE_FILE)
VARIABLES tid, l, ok
tvars == <<vars, tid, l, ok>>

Tr == Traces[tid]
Ev == Tr.calls

TraceInit == Init /\ tid \in 1..Len(Traces) /\ l = 1 /\ ok = "ok"

Judge(e) == IF \E c \in Objs : e.texts[c] # userText'[c] THEN "caller-config"
            ELSE IF ~e.same THEN "caller-config"
            ELSE IF ~e.fresh THEN "result-pure"
            ELSE IF results'[Len(results')].res # Pure(e.c, e.ab) THEN "result-pure"
            ELSE IF ~e.tables THEN "library-table-modified"
            ELSE IF e.live # live' THEN "retention"
            ELSE "ok"

Call == /\ pc = "idle" /\ ok = "ok" /\ l <= Len(Ev)
        /\ Begin(Ev[l].c, Ev[l].ab)
        /\ UNCHANGED <<tid, l, ok>>
Step == /\ pc # "idle"
        /\ (ParseAbbr \/ RemoveText \/ ResolveSnippets \/ Transform \/ RestoreText \/ CacheLookup \/ ResolveNode)
        /\ IF pc' = "idle" THEN ok' = Judge(Ev[l]) /\ l' = l + 1 ELSE UNCHANGED <<l, ok>>
        /\ UNCHANGED tid
TraceNext == Call \/ Step
TraceSpec == TraceInit /\ [][TraceNext]_tvars

Verdict == /\ (ok # "ok" => PrintT(<<"REJECT", Tr.tid, l - 1, ok>>))
           /\ ((ok = "ok" /\ pc = "idle" /\ l = Len(Ev) + 1) => PrintT(<<"ACCEPT", Tr.tid>>))
=============================================================================
