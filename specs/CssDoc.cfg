SPECIFICATION Spec
INVARIANT MatchInv
INVARIANT OutwardInv
INVARIANT TruthInv
INVARIANT Dump
CHECK_DEADLOCK FALSE
