SPECIFICATION Spec
INVARIANT MatchInv
INVARIANT OutwardInv
INVARIANT TruthInv
INVARIANT ScanInv
INVARIANT Dump
CHECK_DEADLOCK FALSE
