------------------------------ MODULE AbbrWrap ------------------------------
(* C04, wrap clause - supplied text lines and the implicit repeater X*.      *)
(*                                                                           *)
(* Templates: abbreviations given with their element listing (pre-order),    *)
(*   the span lo..hi of the implicitly repeated item (an element with its    *)
(*   descendants, or a group), the $# placeholder sites inside it, literal   *)
(*   text already written on elements and $ numbering in a class.            *)
(* Generator: every list of up to MaxLines wrap lines over LineAtoms (blank  *)
(*   lines, padded lines, lines that look like abbreviation syntax).         *)
(* Machine  : the converter's loop - count := number of non-blank lines; per *)
(*   copy i: convert the repeated item with the repeater value i, replace    *)
(*   every $# by get_text(i) (which sets `inserted`), and if nothing was     *)
(*   inserted append get_text(i) to the deepest last node of the copy.       *)
(*   Without implicit repeater: the joined, trimmed text goes once into the  *)
(*   deepest last node of the last top-level node.                           *)
(* Contract : stated on the listing by index arithmetic, without the loop.   *)
(* Supplied lines are opaque strings in the model: they cannot be tokenised, *)
(* which is exactly the statement "never interpreted".                       *)
EXTENDS Common, Json

CONSTANTS MaxLines, LineAtoms, TemplateIdx

NONE == "<none>"
E(d, n, title, cls, pre) == [d |-> d, n |-> n, title |-> title, cls |-> cls, pre |-> pre, xr |-> 1]
X(e, k) == [e EXCEPT !.xr = k]          \* a leaf written with an explicit repeater *k
PH == "$#"             \* marks a placeholder site in title / pre
PHW == "$#whole"       \* a placeholder outside every implicit repeater: the whole supplied text
PHW2 == "[$#whole]"    \* ... inside brackets
Templates == <<
  [abbr |-> "ul>li*",                 items |-> <<E(0,"ul",NONE,NONE,""), E(1,"li",NONE,NONE,"")>>,                                lo |-> 2, hi |-> 2],
  [abbr |-> "ul>li*>b",               items |-> <<E(0,"ul",NONE,NONE,""), E(1,"li",NONE,NONE,""), E(2,"b",NONE,NONE,"")>>,          lo |-> 2, hi |-> 3],
  [abbr |-> "li*",                    items |-> <<E(0,"li",NONE,NONE,"")>>,                                                        lo |-> 1, hi |-> 1],
  [abbr |-> "ul>li[title=$#]*>b{$#}", items |-> <<E(0,"ul",NONE,NONE,""), E(1,"li",PH,NONE,""), E(2,"b",NONE,NONE,PH)>>,            lo |-> 2, hi |-> 3],
  [abbr |-> "(dt+dd{$#})*",           items |-> <<E(0,"dt",NONE,NONE,""), E(0,"dd",NONE,NONE,PH)>>,                                lo |-> 1, hi |-> 2],
  [abbr |-> "(dt+dd)*",               items |-> <<E(0,"dt",NONE,NONE,""), E(0,"dd",NONE,NONE,"")>>,                                lo |-> 1, hi |-> 2],
  [abbr |-> "ul>li",                  items |-> <<E(0,"ul",NONE,NONE,""), E(1,"li",NONE,NONE,"")>>,                                lo |-> 0, hi |-> 0],
  [abbr |-> "x+y>z",                  items |-> <<E(0,"x",NONE,NONE,""), E(0,"y",NONE,NONE,""), E(1,"z",NONE,NONE,"")>>,            lo |-> 0, hi |-> 0],
  [abbr |-> "li.c$*",                 items |-> <<E(0,"li",NONE,"c$","")>>,                                                        lo |-> 1, hi |-> 1],
  [abbr |-> "ul>li*>b+i",             items |-> <<E(0,"ul",NONE,NONE,""), E(1,"li",NONE,NONE,""), E(2,"b",NONE,NONE,""), E(2,"i",NONE,NONE,"")>>, lo |-> 2, hi |-> 4],
  [abbr |-> "ul>li{x}*",              items |-> <<E(0,"ul",NONE,NONE,""), E(1,"li",NONE,NONE,"x")>>,                               lo |-> 2, hi |-> 2],
  [abbr |-> "x>y*+z",                 items |-> <<E(0,"x",NONE,NONE,""), E(1,"y",NONE,NONE,""), E(1,"z",NONE,NONE,"")>>,            lo |-> 2, hi |-> 2],
  [abbr |-> "p{q}>b",                 items |-> <<E(0,"p",NONE,NONE,"q"), E(1,"b",NONE,NONE,"")>>,                                 lo |-> 0, hi |-> 0],
  [abbr |-> "ul>li[title=$#]*",       items |-> <<E(0,"ul",NONE,NONE,""), E(1,"li",PH,NONE,"")>>,                                  lo |-> 2, hi |-> 2],
  [abbr |-> "x>(y>z)*",               items |-> <<E(0,"x",NONE,NONE,""), E(1,"y",NONE,NONE,""), E(2,"z",NONE,NONE,"")>>,            lo |-> 2, hi |-> 3],
  [abbr |-> "ul>li*>b*2{$#}",         items |-> <<E(0,"ul",NONE,NONE,""), E(1,"li",NONE,NONE,""), X(E(2,"b",NONE,NONE,PH), 2)>>,     lo |-> 2, hi |-> 3],
  [abbr |-> "li*>i+b[title=$#]*3",    items |-> <<E(0,"li",NONE,NONE,""), E(1,"i",NONE,NONE,""), X(E(1,"b",PH,NONE,""), 3)>>,        lo |-> 1, hi |-> 3],
  [abbr |-> "(dt{$#}+dd*2)*",         items |-> <<E(0,"dt",NONE,NONE,PH), X(E(0,"dd",NONE,NONE,""), 2)>>,                         lo |-> 1, hi |-> 2],
  [abbr |-> "ul>li*>br",              items |-> <<E(0,"ul",NONE,NONE,""), E(1,"li",NONE,NONE,""), E(2,"br",NONE,NONE,"")>>,         lo |-> 2, hi |-> 3],   \* deepest last element is a void element
  [abbr |-> "x>y/",                   items |-> <<E(0,"x",NONE,NONE,""), E(1,"y",NONE,NONE,"")>>,                                  lo |-> 0, hi |-> 0],     \* ... carries the self-closing mark
  [abbr |-> "ul>li{x${1:y}}*",        items |-> <<E(0,"ul",NONE,NONE,""), E(1,"li",NONE,NONE,"xy")>>,                              lo |-> 2, hi |-> 2],   \* written text ends in a field
  [abbr |-> "p{q${0}}",               items |-> <<E(0,"p",NONE,NONE,"q")>>,                                                        lo |-> 0, hi |-> 0],
  \* a placeholder outside (after) the repeated item stands for the whole supplied text, as it does without any repeater
  [abbr |-> "li{$#}*+p{$#}",          items |-> <<E(0,"li",NONE,NONE,PH), E(0,"p",NONE,NONE,PHW)>>,                                lo |-> 1, hi |-> 1],
  \* a placeholder that is evaluated after an explicitly repeated sibling inside the copy
  [abbr |-> "li*>b*2+i{$#}",          items |-> <<E(0,"li",NONE,NONE,""), X(E(1,"b",NONE,NONE,""), 2), E(1,"i",NONE,NONE,PH)>>,     lo |-> 1, hi |-> 3],
  [abbr |-> "ul>li*>b*2+i[title=$#]", items |-> <<E(0,"ul",NONE,NONE,""), E(1,"li",NONE,NONE,""), X(E(2,"b",NONE,NONE,""), 2), E(2,"i",PH,NONE,"")>>, lo |-> 2, hi |-> 4],
  [abbr |-> "ul>(li>b{$#})*+i{[$#]}", items |-> <<E(0,"ul",NONE,NONE,""), E(1,"li",NONE,NONE,""), E(2,"b",NONE,NONE,PH), E(1,"i",NONE,NONE,PHW2)>>, lo |-> 2, hi |-> 3] >>

VARIABLES tpl, lines
vars == <<tpl, lines>>
Init == tpl \in TemplateIdx /\ lines = <<>>
AddLine == /\ Len(lines) < MaxLines /\ \E a \in LineAtoms : lines' = Append(lines, IF a = "eBSf" THEN "e\\f" ELSE a) /\ UNCHANGED tpl
Next == AddLine
Spec == Init /\ [][Next]_vars
Complete == Len(lines) >= 1
T == Templates[tpl]

(* ------------------------------------------------------- strings: trimming *)
RECURSIVE LStrip(_), RStrip(_)
IsBlankCh(c) == c = " " \/ c = "\t" \/ c = "\n" \/ c = "\r"
LStrip(s) == IF s # "" /\ IsBlankCh(At(s, 1)) THEN LStrip(Tail(s)) ELSE s
RStrip(s) == IF s # "" /\ IsBlankCh(At(s, Len(s))) THEN RStrip(SubSeq(s, 1, Len(s) - 1)) ELSE s
Trim(s) == RStrip(LStrip(s))
NonBlank == SelectSeq(lines, LAMBDA l : Trim(l) # "")
WholeText == Trim(JoinSeq(lines, "\n"))

(* --------------------------------------------------------------- contract *)
HasPH == T.lo > 0 /\ \E k \in T.lo..T.hi : T.items[k].title = PH \/ T.items[k].pre = PH
\* item k of copy i (1-based) for line text tx
CopyItem(k, i, tx) == LET it == T.items[k] IN
    [d |-> it.d, n |-> it.n,
     title |-> IF it.title = PH THEN tx ELSE it.title,
     cls |-> IF it.cls = "c$" THEN "c" \o ToString(i) ELSE it.cls,
     text |-> IF it.pre = PH THEN tx
              ELSE IF ~HasPH /\ k = T.hi THEN it.pre \o tx        \* appended once to the deepest last element of the copy
              ELSE it.pre]
RawText == JoinSeq(lines, "\n")
PlainItem(k) == LET it == T.items[k] IN [d |-> it.d, n |-> it.n, title |-> it.title, cls |-> it.cls,
                                         text |-> IF it.pre = PHW THEN RawText ELSE IF it.pre = PHW2 THEN "[" \o RawText \o "]" ELSE it.pre]
RECURSIVE FlatSeq(_)
FlatSeq(ss) == IF ss = <<>> THEN <<>> ELSE Head(ss) \o FlatSeq(Tail(ss))
\* items a..b, each mapped by F; an explicitly repeated leaf is listed xr times
Range(a, b, F(_)) == FlatSeq([j \in 1..(IF b >= a THEN b - a + 1 ELSE 0) |-> Times(<<F(a + j - 1)>>, T.items[a + j - 1].xr)])
ContractListing ==
    IF T.lo = 0
    THEN [k \in 1..Len(T.items) |-> IF k = Len(T.items) THEN [PlainItem(k) EXCEPT !.text = @ \o WholeText] ELSE PlainItem(k)]
    ELSE Range(1, T.lo - 1, PlainItem)
         \o FlatSeq([i \in 1..Len(NonBlank) |-> Range(T.lo, T.hi, LAMBDA k : CopyItem(k, i, Trim(NonBlank[i])))])
         \o Range(T.hi + 1, Len(T.items), PlainItem)

(* ---------------------------------------------------------------- machine *)
(* convert_statement() for the implicitly repeated item: loop over copies with the `inserted` flag *)
RECURSIVE MCopy(_, _, _, _), MLoop(_, _)
\* convert items k..hi of one copy; returns [o: listing, ins: has a $# been replaced]
MCopy(k, i, ins, acc) ==
    IF k > T.hi THEN [o |-> acc, ins |-> ins]
    ELSE LET it == T.items[k]
             tx == Trim(NonBlank[i])                 \* get_text(repeater.value): the i-th clean line, trimmed
             e == [d |-> it.d, n |-> it.n,
                   title |-> IF it.title = PH THEN tx ELSE it.title,
                   cls |-> IF it.cls = "c$" THEN "c" \o ToString(i) ELSE it.cls,
                   text |-> IF it.pre = PH THEN tx ELSE it.pre]
         IN MCopy(k + 1, i, ins \/ it.title = PH \/ it.pre = PH, acc \o Times(<<e>>, it.xr))
MLoop(i, inserted) ==
    IF i > Len(NonBlank) THEN <<>>
    ELSE LET c == MCopy(T.lo, i, inserted, <<>>)
             last == Len(c.o)
             o2 == IF ~c.ins THEN [c.o EXCEPT ![last].text = @ \o Trim(NonBlank[i])] ELSE c.o   \* insert_text(deepest_node(items[-1]))
         IN o2 \o MLoop(i + 1, c.ins)
MachineListing ==
    IF T.lo = 0
    THEN LET all == [k \in 1..Len(T.items) |-> PlainItem(k)] IN [all EXCEPT ![Len(all)].text = @ \o WholeText]
    ELSE Range(1, T.lo - 1, PlainItem) \o MLoop(1, FALSE) \o Range(T.hi + 1, Len(T.items), PlainItem)

WrapInv == Complete => MachineListing = ContractListing
RECURSIVE SumXr(_, _)
SumXr(a, b) == IF a > b THEN 0 ELSE T.items[a].xr + SumXr(a + 1, b)
CopiesInv == (Complete /\ T.lo > 0) => Len(ContractListing) = SumXr(1, T.lo - 1) + Len(NonBlank) * SumXr(T.lo, T.hi) + SumXr(T.hi + 1, Len(T.items))

Dump == Complete => PrintT(<<"VEC", ToJson([abbr |-> T.abbr, lines |-> lines, implicit |-> T.lo > 0, out |-> ContractListing])>>)
=============================================================================
