------------------------------ MODULE AbbrAttrs ------------------------------
(* C03 - attributes are carried over, merged and quoted as written.          *)
(*                                                                           *)
(* One element, a sequence of attribute *mentions* (#id, .class, [..] sets). *)
(* Machine : merge_attributes() as one action per mention (lookup by name,   *)
(*   first position kept, class values joined, other values overwritten -    *)
(*   or kept under output.reverseAttributes), then the printer's rules.      *)
(* Contract: position = first mention; class = all mentioned values in       *)
(*   written order joined by one blank; any other name = value of the last   *)
(*   (first under reverse) mention; stated without the loop.                 *)
EXTENDS Common, Json

CONSTANTS MaxMentions,
          ShapeIdx,       \* which of the mention shapes below are generated
          Wrapper         \* "none": the element is x;  "sibling-class": x follows a sibling that has a class and an attribute of its own (y[].s[t=u]+x, written after an empty set);  "digit-name": the element is x1 (its name ends in a digit);  "label-inp": the element is the snippet inp inside a label - the definition
                          \* input[type=${1:text}] + [name=${1} id=${1}] brings attributes of its own and the label addon (on by
                          \* default) removes the snippet's empty id, never the id the user wrote

NONE == "<none>"          \* "no value written"
(* s: as written; nm: attribute name; val: value or NONE; vt: raw | dq | sq | expr; b: boolean mark; im: implied mark *)
Shapes == <<
  [s |-> "#i1",          nm |-> "id",       val |-> "i1",   vt |-> "raw",  b |-> FALSE, im |-> FALSE],
  [s |-> "#i2",          nm |-> "id",       val |-> "i2",   vt |-> "raw",  b |-> FALSE, im |-> FALSE],
  [s |-> ".c1",          nm |-> "class",    val |-> "c1",   vt |-> "raw",  b |-> FALSE, im |-> FALSE],
  [s |-> ".c2",          nm |-> "class",    val |-> "c2",   vt |-> "raw",  b |-> FALSE, im |-> FALSE],
  [s |-> "[t]",          nm |-> "t",        val |-> NONE,   vt |-> "raw",  b |-> FALSE, im |-> FALSE],
  [s |-> "[t=v]",        nm |-> "t",        val |-> "v",    vt |-> "raw",  b |-> FALSE, im |-> FALSE],
  [s |-> "[t=\"v w\"]",  nm |-> "t",        val |-> "v w",  vt |-> "dq",   b |-> FALSE, im |-> FALSE],
  [s |-> "[t='q']",      nm |-> "t",        val |-> "q",    vt |-> "sq",   b |-> FALSE, im |-> FALSE],
  [s |-> "[t=\"\"]",     nm |-> "t",        val |-> "",     vt |-> "dq",   b |-> FALSE, im |-> FALSE],
  [s |-> "[d.]",         nm |-> "d",        val |-> NONE,   vt |-> "raw",  b |-> TRUE,  im |-> FALSE],
  [s |-> "[!m]",         nm |-> "m",        val |-> NONE,   vt |-> "raw",  b |-> FALSE, im |-> TRUE ],
  [s |-> "[!m=v]",       nm |-> "m",        val |-> "v",    vt |-> "raw",  b |-> FALSE, im |-> TRUE ],
  [s |-> "[disabled]",   nm |-> "disabled", val |-> NONE,   vt |-> "raw",  b |-> FALSE, im |-> FALSE],
  [s |-> "[u=w]",        nm |-> "u",        val |-> "w",    vt |-> "raw",  b |-> FALSE, im |-> FALSE],
  [s |-> "[class=k]",    nm |-> "class",    val |-> "k",    vt |-> "raw",  b |-> FALSE, im |-> FALSE],
  [s |-> "[id=j]",       nm |-> "id",       val |-> "j",    vt |-> "raw",  b |-> FALSE, im |-> FALSE],
  [s |-> "[e={x+1}]",    nm |-> "e",        val |-> "x+1",  vt |-> "expr", b |-> FALSE, im |-> FALSE],
  [s |-> "[for=f]",      nm |-> "for",      val |-> "f",    vt |-> "raw",  b |-> FALSE, im |-> FALSE],
  [s |-> "[t=>]",        nm |-> "t",        val |-> ">",    vt |-> "raw",  b |-> FALSE, im |-> FALSE],
  [s |-> "[!m=\"\"]",    nm |-> "m",        val |-> "",     vt |-> "dq",   b |-> FALSE, im |-> TRUE ],
  [s |-> "[t=\"*\"]",    nm |-> "t",        val |-> "*",    vt |-> "dq",   b |-> FALSE, im |-> FALSE],
  [s |-> "[u=*2]",       nm |-> "u",        val |-> "*2",   vt |-> "raw",  b |-> FALSE, im |-> FALSE],
  [s |-> "[!g.]",        nm |-> "g",        val |-> NONE,   vt |-> "raw",  b |-> TRUE,  im |-> TRUE ],
  [s |-> "[!g.=x]",      nm |-> "g",        val |-> "x",    vt |-> "raw",  b |-> TRUE,  im |-> TRUE ],
  [s |-> "[h.=y]",       nm |-> "h",        val |-> "y",    vt |-> "raw",  b |-> TRUE,  im |-> FALSE],
  [s |-> "[k=1 t=z]",    nm |-> "k",        val |-> "1",    vt |-> "raw",  b |-> FALSE, im |-> FALSE],
  [s |-> "[u k=\"2\"]",   nm |-> "u",        val |-> NONE,   vt |-> "raw",  b |-> FALSE, im |-> FALSE],
  [s |-> "[for.]",       nm |-> "for",      val |-> NONE,   vt |-> "raw",  b |-> TRUE,  im |-> FALSE],
  [s |-> ".2x",          nm |-> "class",    val |-> "2x",   vt |-> "raw",  b |-> FALSE, im |-> FALSE],       \* a class name that starts with a digit
  [s |-> "#3d",          nm |-> "id",       val |-> "3d",   vt |-> "raw",  b |-> FALSE, im |-> FALSE],
  [s |-> "..m1",         nm |-> "class",    val |-> "m1",   vt |-> "raw",  b |-> FALSE, im |-> FALSE, mu |-> TRUE],
  [s |-> "[]",           nm |-> "",         val |-> NONE,   vt |-> "raw",  b |-> FALSE, im |-> FALSE, empty |-> TRUE],
  [s |-> "[w=\"  x\ty  \"]", nm |-> "w",     val |-> "  x\ty  ", vt |-> "dq", b |-> FALSE, im |-> FALSE] >>   \* 33: blanks at both ends of a quoted value and a tab inside it are part of the value   \* 32: an empty attribute set mentions nothing   \* 31: the doubled class shorthand ("multiple"): the attribute
                                                                                                        \* keeps that mark if it is its first mention; names are then mapped through the "class*" entry
(* a set may hold a second attribute: index of the shape -> the second attribute of that set *)
Second(k) == IF k = 26 THEN <<[s |-> "", nm |-> "t", val |-> "z", vt |-> "raw", b |-> FALSE, im |-> FALSE]>>
             ELSE IF k = 27 THEN <<[s |-> "", nm |-> "k", val |-> "2", vt |-> "dq", b |-> FALSE, im |-> FALSE]>>
             ELSE <<>>

VARIABLES abbr, mentions, merged, reverse, rep
vars == <<abbr, mentions, merged, reverse, rep>>
(* rep: number of copies - the element may finally be written with the repeater *2; every copy carries the same attributes *)
(* merged: sequence of [nm, val, vt, b, im] - the node's attribute list after the mentions seen so far *)

PrefixM == IF Wrapper = "label-inp"
           THEN << [s |-> "", nm |-> "type", val |-> "text", vt |-> "raw", b |-> FALSE, im |-> FALSE],
                   [s |-> "", nm |-> "name", val |-> "",     vt |-> "raw", b |-> FALSE, im |-> FALSE] >>      \* id=${1}: removed by the addon
           ELSE <<>>
Init == /\ abbr = (IF Wrapper = "label-inp" THEN "label>inp" ELSE IF Wrapper = "digit-name" THEN "x1" ELSE IF Wrapper = "sibling-class" THEN "y[].s[t=u]+x" ELSE "x") /\ mentions = <<>>
        /\ merged = [i \in 1..Len(PrefixM) |-> [nm |-> PrefixM[i].nm, val |-> PrefixM[i].val, vt |-> PrefixM[i].vt, b |-> FALSE, im |-> FALSE, mu |-> FALSE]]
        /\ reverse \in (IF Wrapper = "label-inp" THEN {FALSE} ELSE BOOLEAN) /\ rep = 1

IsEmpty(m) == "empty" \in DOMAIN m /\ m.empty
IsMu(m) == "mu" \in DOMAIN m /\ m.mu
Find(lst, nm) == IF \E i \in 1..Len(lst) : lst[i].nm = nm THEN CHOOSE i \in 1..Len(lst) : lst[i].nm = nm ELSE 0
JoinVal(a, b) == IF a = NONE THEN b ELSE IF b = NONE THEN a ELSE IF a = "" THEN b ELSE a \o " " \o b
MergeStep(lst, m) ==
    LET i == Find(lst, m.nm) IN
    IF i = 0 THEN Append(lst, [nm |-> m.nm, val |-> m.val, vt |-> m.vt, b |-> m.b, im |-> m.im, mu |-> IsMu(m)])
    ELSE IF m.nm = "class" THEN [lst EXCEPT ![i].val = JoinVal(@, m.val)]
    ELSE [lst EXCEPT ![i].val = IF reverse THEN @ ELSE m.val,
                     ![i].im = @ \/ m.im, ![i].b = @ \/ m.b,
                     ![i].vt = IF @ = "expr" THEN @ ELSE m.vt]

Mention == /\ Len(mentions) < MaxMentions /\ rep = 1
           /\ \E k \in ShapeIdx :
                /\ abbr' = abbr \o Shapes[k].s
                /\ mentions' = Append(mentions, k)
                /\ merged' = IF IsEmpty(Shapes[k]) THEN merged ELSE IF Second(k) = <<>> THEN MergeStep(merged, Shapes[k]) ELSE MergeStep(MergeStep(merged, Shapes[k]), Second(k)[1])
           /\ UNCHANGED <<reverse, rep>>
Repeat2 == /\ Wrapper # "label-inp" /\ rep = 1 /\ Len(mentions) >= 1 /\ rep' = 2 /\ abbr' = abbr \o "*2" /\ UNCHANGED <<mentions, merged, reverse>>
Next == Mention \/ Repeat2
Spec == Init /\ [][Next]_vars

(* --------------------------------------------------------------- contract *)
RECURSIVE AllMentions(_)
AllMentions(ms) == IF ms = <<>> THEN <<>> ELSE (IF IsEmpty(Shapes[Head(ms)]) THEN <<>> ELSE <<Shapes[Head(ms)]>>) \o Second(Head(ms)) \o AllMentions(Tail(ms))
Ms == PrefixM \o AllMentions(mentions)
NamesInOrder ==           \* names by first mention
    LET RECURSIVE F(_, _)
        F(i, acc) == IF i > Len(Ms) THEN acc
                     ELSE F(i + 1, IF \E j \in 1..Len(acc) : acc[j] = Ms[i].nm THEN acc ELSE Append(acc, Ms[i].nm))
    IN F(1, <<>>)
Idx(nm) == {i \in 1..Len(Ms) : Ms[i].nm = nm}
SetMin(S) == CHOOSE x \in S : \A y \in S : x <= y
SetMax(S) == CHOOSE x \in S : \A y \in S : y <= x
ClassValue == LET RECURSIVE J(_, _)
                  J(i, acc) == IF i > Len(Ms) THEN acc
                               ELSE J(i + 1, IF Ms[i].nm = "class" THEN JoinVal(acc, Ms[i].val) ELSE acc)
              IN J(1, NONE)
ValueOf(nm) == IF nm = "class" THEN ClassValue
               ELSE Ms[IF reverse THEN SetMin(Idx(nm)) ELSE SetMax(Idx(nm))].val
ContractInv == /\ [i \in 1..Len(merged) |-> merged[i].nm] = NamesInOrder
               /\ \A i \in 1..Len(merged) : merged[i].val = ValueOf(merged[i].nm)
NoDuplicates == \A i, j \in 1..Len(merged) : merged[i].nm = merged[j].nm => i = j

(* Mention sequences on which the statement is silent: a repeated name whose mentions differ in the boolean / implied
   mark or mix an expression value with a plain one; an empty class value among several class mentions. *)
Silent == \/ \E i, j \in 1..Len(Ms) : /\ i # j /\ Ms[i].nm = Ms[j].nm /\ Ms[i].nm # "class"
                                      /\ (Ms[i].b # Ms[j].b \/ Ms[i].im # Ms[j].im \/ (Ms[i].vt = "expr") # (Ms[j].vt = "expr")
                                          \/ (Ms[i].im /\ Ms[j].im /\ (Ms[i].vt = "raw") # (Ms[j].vt = "raw")))
          \/ (Cardinality(Idx("class")) > 1 /\ \E i \in Idx("class") : Ms[i].val = "" \/ Ms[i].val = NONE)

(* ---------------------------------------------------------------- printer *)
(* row = [syntax, quotes ("double"|"single"), upper (attributeCase), compact, style ("html"|"xhtml"|"xml")] *)
Booleans == {"contenteditable", "seamless", "async", "autofocus", "autoplay", "checked", "controls", "defer", "disabled",
             "formnovalidate", "hidden", "ismap", "loop", "multiple", "muted", "novalidate", "readonly", "required", "reversed",
             "selected", "typemustmatch"}
MapName(syntax, nm, mu) == IF syntax = "jsx" THEN (IF nm = "class" THEN (IF mu THEN "styleName" ELSE "className") ELSE IF nm = "for" THEN "htmlFor" ELSE nm)
                           ELSE IF syntax = "vue" /\ nm = "class" /\ mu THEN ":class" ELSE nm
\* markup.valuePrefix of jsx ("class*" -> styles): the value of the doubled shorthand becomes an expression in object notation
RECURSIVE WordChars(_, _)
WordChars(x, i) == i > Len(x) \/ ((IsAlpha(At(x, i)) \/ IsDigit(At(x, i)) \/ At(x, i) \in {"_", "$"}) /\ WordChars(x, i + 1))
IsPropKey(x) == x # "" /\ (IsAlpha(At(x, 1)) \/ At(x, 1) \in {"_", "$"}) /\ WordChars(x, 2)
Prefixed(val) == IF IsPropKey(val) THEN "styles." \o val ELSE "styles['" \o val \o "']"
UpperOf(s) == CASE s = "id" -> "ID" [] s = "class" -> "CLASS" [] s = "className" -> "CLASSNAME" [] s = "styleName" -> "STYLENAME" [] s = "t" -> "T" [] s = "d" -> "D"
                [] s = "m" -> "M" [] s = "disabled" -> "DISABLED" [] s = "u" -> "U" [] s = "e" -> "E" [] s = "for" -> "FOR"
                [] s = ":class" -> ":CLASS" [] s = "htmlFor" -> "HTMLFOR" [] s = "g" -> "G" [] s = "h" -> "H" [] s = "k" -> "K" [] s = "type" -> "TYPE" [] s = "name" -> "NAME" [] s = "w" -> "W"
EmitOne(a, row) ==       \* <<>> when the attribute is dropped, else << [n, q, v] >>; q = NONE: printed without "=" part
    LET hasVal == a.val # NONE /\ a.val # ""
        nm0 == MapName(row.syntax, a.nm, a.mu)
        nm == IF row.upper THEN UpperOf(nm0) ELSE nm0
        pfx == row.syntax = "jsx" /\ a.nm = "class" /\ a.mu /\ hasVal                  \* value prefix applies (a single string token)
        q == IF a.vt = "expr" \/ pfx THEN "{" ELSE IF row.quotes = "single" THEN "'" ELSE "\""
    IN IF a.im /\ a.vt = "raw" /\ ~hasVal THEN <<>>
       ELSE IF (a.b \/ a.nm \in Booleans) /\ ~hasVal
            THEN IF ~row.compact THEN << [n |-> nm, q |-> q, v |-> nm] >>
                 ELSE IF row.style = "html" THEN << [n |-> nm, q |-> NONE, v |-> ""] >>
                 ELSE << [n |-> nm, q |-> q, v |-> ""] >>
       ELSE << [n |-> nm, q |-> q, v |-> IF a.val = NONE THEN "" ELSE IF pfx THEN Prefixed(a.val) ELSE a.val] >>
RECURSIVE Emit(_, _)
Emit(lst, row) == IF lst = <<>> THEN <<>> ELSE EmitOne(Head(lst), row) \o Emit(Tail(lst), row)

Rows == << [syntax |-> "html", quotes |-> "double", upper |-> FALSE, compact |-> FALSE, style |-> "html"],
           [syntax |-> "html", quotes |-> "single", upper |-> TRUE,  compact |-> TRUE,  style |-> "html"],
           [syntax |-> "xml",  quotes |-> "double", upper |-> FALSE, compact |-> TRUE,  style |-> "xml"],
           [syntax |-> "jsx",  quotes |-> "double", upper |-> FALSE, compact |-> FALSE, style |-> "xhtml"],
           [syntax |-> "vue",  quotes |-> "single", upper |-> FALSE, compact |-> TRUE,  style |-> "xhtml"],
           [syntax |-> "jsx",  quotes |-> "single", upper |-> TRUE,  compact |-> TRUE,  style |-> "html"],
           [syntax |-> "html", quotes |-> "double", upper |-> TRUE,  compact |-> FALSE, style |-> "xhtml"],
           [syntax |-> "jsx",  quotes |-> "double", upper |-> TRUE,  compact |-> FALSE, style |-> "xml"] >>

\* the printer never prints a name twice and keeps the merged order
EmitInv == \A r \in 1..Len(Rows) :
              LET e == Emit(merged, Rows[r]) IN \A i, j \in 1..Len(e) : e[i].n = e[j].n => i = j

Dump == Len(mentions) >= 1 =>
          PrintT(<<"VEC", ToJson([abbr |-> abbr, reverse |-> reverse, silent |-> Silent, rep |-> rep, el |-> IF Wrapper = "label-inp" THEN "input" ELSE IF Wrapper = "digit-name" THEN "x1" ELSE "x",
                                   rows |-> [r \in 1..Len(Rows) |-> [row |-> Rows[r], attrs |-> Emit(merged, Rows[r])]]])>>)
=============================================================================
