------------------------------- MODULE Common -------------------------------
(* Helpers shared by all py-emmet specifications.                            *)
(* TLC strings support Len, \o, SubSeq, Tail and = but no indexing, so a     *)
(* character is a string of length one obtained with At.                     *)
EXTENDS Integers, Sequences, FiniteSets, TLC

(* config files cannot hold a backslash: constants use the name "BS" for it *)
Ch(c) == IF c = "BS" THEN "\\" ELSE c

\* fragments passed as constants spell backslash, double quote and line breaks by name (cfg files do not unescape strings)
RECURSIVE Subst(_)
Subst(f) == IF f = "" THEN ""
            ELSE IF Len(f) >= 2 /\ SubSeq(f, 1, 2) = "BS" THEN "\\" \o Subst(SubSeq(f, 3, Len(f)))
            ELSE IF Len(f) >= 2 /\ SubSeq(f, 1, 2) = "DQ" THEN "\"" \o Subst(SubSeq(f, 3, Len(f)))
            ELSE IF Len(f) >= 2 /\ SubSeq(f, 1, 2) = "NL" THEN "\n" \o Subst(SubSeq(f, 3, Len(f)))
            ELSE IF Len(f) >= 2 /\ SubSeq(f, 1, 2) = "CR" THEN "\r" \o Subst(SubSeq(f, 3, Len(f)))
            ELSE SubSeq(f, 1, 1) \o Subst(Tail(f))
At(s, i) == IF i >= 1 /\ i <= Len(s) THEN SubSeq(s, i, i) ELSE ""
Slice(s, a, b) == IF a >= b THEN "" ELSE SubSeq(s, a + 1, b)      \* Python s[a:b], 0-based, a <= b <= Len(s)
Last(sq) == sq[Len(sq)]
Front(sq) == SubSeq(sq, 1, Len(sq) - 1)
Max(a, b) == IF a >= b THEN a ELSE b
Min(a, b) == IF a <= b THEN a ELSE b
Abs(x) == IF x < 0 THEN -x ELSE x

Digits == {"0", "1", "2", "3", "4", "5", "6", "7", "8", "9"}
Lower == {"a","b","c","d","e","f","g","h","i","j","k","l","m","n","o","p","q","r","s","t","u","v","w","x","y","z"}
Upper == {"A","B","C","D","E","F","G","H","I","J","K","L","M","N","O","P","Q","R","S","T","U","V","W","X","Y","Z"}
IsDigit(c) == c \in Digits
IsAlpha(c) == c \in Lower \/ c \in Upper
IsWhite(c) == c = " " \/ c = "\t"
IsSpace(c) == IsWhite(c) \/ c = "\n" \/ c = "\r"

RECURSIVE CatSeq(_)
CatSeq(sq) == IF sq = <<>> THEN "" ELSE Head(sq) \o CatSeq(Tail(sq))

RECURSIVE JoinSeq(_, _)
JoinSeq(sq, glue) == IF sq = <<>> THEN ""
                     ELSE IF Len(sq) = 1 THEN Head(sq)
                     ELSE Head(sq) \o glue \o JoinSeq(Tail(sq), glue)

RECURSIVE Times(_, _)
Times(sq, n) == IF n <= 0 THEN <<>> ELSE sq \o Times(sq, n - 1)

RECURSIVE RepeatStr(_, _)
RepeatStr(s, n) == IF n <= 0 THEN "" ELSE s \o RepeatStr(s, n - 1)

(* ---- exact rationals <<num, den>> in lowest terms, den > 0 -------------- *)
RECURSIVE GCD(_, _)
GCD(a, b) == IF b = 0 THEN a ELSE GCD(b, a % b)
Norm(n, d) == LET g == GCD(Abs(n), Abs(d))
                  s == IF d < 0 THEN -1 ELSE 1
              IN IF n = 0 THEN <<0, 1>> ELSE <<(s * n) \div g, (s * d) \div g>>

DigitVal(c) == CASE c = "0" -> 0 [] c = "1" -> 1 [] c = "2" -> 2 [] c = "3" -> 3 [] c = "4" -> 4
                 [] c = "5" -> 5 [] c = "6" -> 6 [] c = "7" -> 7 [] c = "8" -> 8 [] c = "9" -> 9
RECURSIVE NatOf(_, _)
NatOf(s, acc) == IF s = "" THEN acc ELSE NatOf(Tail(s), acc * 10 + DigitVal(At(s, 1)))
RECURSIVE Pow10(_)
Pow10(n) == IF n = 0 THEN 1 ELSE 10 * Pow10(n - 1)
=============================================================================
