----------------------------- MODULE HtmlScanMC -----------------------------
(* All-strings instance of the HTML matcher: every sequence of up to MaxFrag *)
(* fragments (single characters and pieces of tags), one fragment per step.  *)
(* The scanner transcription HtmlScan.tla turns the string into tag events   *)
(* (the variable evs - the code's scan() is one pass too); on the events run  *)
(* match(), balanced_outward() and balanced_inward() as the code's callback  *)
(* machines (stack of open tags, early exit, first-child chain; the object   *)
(* pool of the code is transparent and not modelled), in HTML and XML mode,  *)
(* at every position from -1 to len + 1.                                     *)
(* TLC checks what C16 says, on the model, for every such string:            *)
(*   ScanRanges, ScanShape, ScanOrder   - tag events                         *)
(*   AttrRanges                          - attributes() of the whole string   *)
(*   MatchIsFirstOutward, OutwardNested, InwardNested, ResultRanges          *)
(* and Dump prints events, attributes and the three answers per position and *)
(* mode; the harness compares every one of them with the real code.          *)
EXTENDS HtmlScan, Json
CONSTANTS Frags, MaxFrag
VARIABLES s, n, evs
vars == <<s, n, evs>>
Init == s = "" /\ n = 0 /\ evs = <<>>
Next == n < MaxFrag /\ \E f \in Frags : s' = s \o Subst(f) /\ n' = n + 1 /\ evs' = HScan(s')
Spec == Init /\ [][Next]_vars

VoidNames == {"img", "meta", "link", "br", "base", "hr", "area", "wbr", "col", "embed", "input", "param", "source", "track"}
T(nm, os, oe, cs, ce) == [n |-> nm, os |-> os, oe |-> oe, cs |-> cs, ce |-> ce]          \* cs = ce = -1: no closing tag
SelfClose(ev, xml) == ev.ty = 3 \/ (ev.ty = 1 /\ ~xml /\ ev.n \in VoidNames)

RECURSIVE GMatch(_, _, _, _)
GMatch(i, stack, pos, xml) ==
    IF i > Len(evs) THEN <<>>
    ELSE LET ev == evs[i] IN
         IF SelfClose(ev, xml) THEN (IF ev.s < pos /\ pos < ev.e THEN <<T(ev.n, ev.s, ev.e, -1, -1)>> ELSE GMatch(i + 1, stack, pos, xml))
         ELSE IF ev.ty = 1 THEN GMatch(i + 1, Append(stack, ev), pos, xml)
         ELSE IF stack # <<>> /\ Last(stack).n = ev.n
              THEN (IF Last(stack).s < pos /\ pos < ev.e THEN <<T(ev.n, Last(stack).s, Last(stack).e, ev.s, ev.e)>>
                    ELSE GMatch(i + 1, Front(stack), pos, xml))
         ELSE GMatch(i + 1, stack, pos, xml)

RECURSIVE GOut(_, _, _, _, _)
GOut(i, stack, pos, xml, acc) ==
    IF i > Len(evs) THEN acc
    ELSE LET ev == evs[i] IN
         IF ev.ty = 2 THEN (IF stack # <<>> /\ Last(stack).n = ev.n
                            THEN GOut(i + 1, Front(stack), pos, xml,
                                      IF Last(stack).s < pos /\ pos < ev.e THEN Append(acc, T(ev.n, Last(stack).s, Last(stack).e, ev.s, ev.e)) ELSE acc)
                            ELSE GOut(i + 1, stack, pos, xml, acc))
         ELSE IF SelfClose(ev, xml) THEN GOut(i + 1, stack, pos, xml, IF ev.s < pos /\ pos < ev.e THEN Append(acc, T(ev.n, ev.s, ev.e, -1, -1)) ELSE acc)
         ELSE GOut(i + 1, Append(stack, ev), pos, xml, acc)

(* balanced_inward: a stack entry is [n, r, fc] - name, ranges (open tag, later also the closing tag), first child (<<>> or <<entry>>) *)
RECURSIVE ChainOf(_)
ChainOf(fc) == IF fc = <<>> THEN <<>>
               ELSE LET c == fc[1] IN <<T(c.n, c.r[1], c.r[2], IF Len(c.r) > 2 THEN c.r[3] ELSE -1, IF Len(c.r) > 2 THEN c.r[4] ELSE -1)>> \o ChainOf(c.fc)
RECURSIVE GIn(_, _, _, _)
GIn(i, stack, pos, xml) ==
    IF i > Len(evs) THEN <<>>
    ELSE LET ev == evs[i] IN
         IF ev.ty = 2
         THEN IF stack = <<>> THEN GIn(i + 1, stack, pos, xml)
              ELSE LET tag == Last(stack) IN
                   IF tag.n # ev.n THEN GIn(i + 1, stack, pos, xml)
                   ELSE IF tag.r[1] <= pos /\ pos <= ev.e THEN <<T(ev.n, tag.r[1], tag.r[2], ev.s, ev.e)>> \o ChainOf(tag.fc)
                   ELSE LET st2 == Front(stack) IN
                        IF st2 # <<>> /\ Last(st2).fc = <<>>
                        THEN GIn(i + 1, [st2 EXCEPT ![Len(st2)].fc = << [tag EXCEPT !.r = @ \o <<ev.s, ev.e>>] >>], pos, xml)
                        ELSE GIn(i + 1, st2, pos, xml)
         ELSE IF SelfClose(ev, xml)
         THEN IF ev.s < pos /\ pos < ev.e THEN <<T(ev.n, ev.s, ev.e, -1, -1)>>
              ELSE IF stack # <<>> /\ Last(stack).fc = <<>>
                   THEN GIn(i + 1, [stack EXCEPT ![Len(stack)].fc = << [n |-> ev.n, r |-> <<ev.s, ev.e>>, fc |-> <<>>] >>], pos, xml)
                   ELSE GIn(i + 1, stack, pos, xml)
         ELSE GIn(i + 1, Append(stack, [n |-> ev.n, r |-> <<ev.s, ev.e>>, fc |-> <<>>]), pos, xml)

Positions == -1..(Len(s) + 1)
Match(pos, xml) == GMatch(1, <<>>, pos, xml)
Outward(pos, xml) == GOut(1, <<>>, pos, xml, <<>>)
Inward(pos, xml) == GIn(1, <<>>, pos, xml)
AllAttrs == HAttributes(s, 0, Len(s))

EndOfT(t) == IF t.ce = -1 THEN t.oe ELSE t.ce
TagOk(t) == /\ 0 <= t.os /\ t.os < t.oe /\ t.oe <= Len(s)
            /\ (t.ce # -1 => t.oe <= t.cs /\ t.cs < t.ce /\ t.ce <= Len(s))
ScanRanges == HRangeOk(s, evs)
ScanShape == HShapeOk(s, evs)
ScanOrder == HOrderOk(evs)
AttrRanges == HAttrsOk(s, 0, Len(s), AllAttrs)
MatchIsFirstOutward == \A pos \in Positions, xml \in BOOLEAN :
    LET m == Match(pos, xml) o == Outward(pos, xml) IN (m = <<>> <=> o = <<>>) /\ (m # <<>> => m[1] = o[1])
OutwardNested == \A pos \in Positions, xml \in BOOLEAN : LET o == Outward(pos, xml) IN
    \A k \in 1..Len(o) : /\ TagOk(o[k]) /\ o[k].os < pos /\ pos < EndOfT(o[k])
                         /\ (k > 1 => o[k].os < o[k - 1].os /\ EndOfT(o[k - 1]) < EndOfT(o[k]))
InwardNested == \A pos \in Positions, xml \in BOOLEAN : LET w == Inward(pos, xml) IN
    \A k \in 1..Len(w) : /\ TagOk(w[k])
                         /\ (k > 1 => w[k - 1].oe <= w[k].os /\ EndOfT(w[k]) <= (IF w[k - 1].ce = -1 THEN w[k - 1].oe ELSE w[k - 1].cs))
Dump == PrintT(<<"VEC", ToJson([s |-> s, evs |-> evs, attrs |-> AllAttrs,
                                at |-> [p \in 1..(Len(s) + 3) |-> [x \in {"h", "x"} |->
                                          [m |-> Match(p - 2, x = "x"), o |-> Outward(p - 2, x = "x"), i |-> Inward(p - 2, x = "x")]]]])>>)
=============================================================================
