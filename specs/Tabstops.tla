------------------------------ MODULE Tabstops ------------------------------
(* C13, numbering clause - tabstops of markup output.                        *)
(*                                                                           *)
(* Generator: online token generator of abbreviations whose elements carry   *)
(*   attribute sets with empty values / explicit ${n} fields, text with and  *)
(*   without fields (also multi-line), self-closing marks, repeaters on      *)
(*   leaves and on groups.  For every element it records, in written order,  *)
(*   the *value slots*: one slot per value that contains tabstops            *)
(*   (a caret slot <<[i |-> 0, ph |-> ""]>> for an empty attribute value or  *)
(*   for the empty content of a leaf that is not self-closed).               *)
(* Machine : WalkState.field + push_tokens(): base := 1; every slot prints   *)
(*   base + index for each of its fields and then base += largest + 1.       *)
(* Contract: the statement, on the printed numbers only (Relative, Ordered,  *)
(*   CaretsCount below).                                                     *)
EXTENDS Common, Json

CONSTANTS MaxTok,        \* bound on the number of generator tokens
          MaxAttrs,      \* attribute sets per element
          MaxRep         \* repeat counts 2..MaxRep are generated

VARIABLES abbr, ntok, expect, frames, pend
vars == <<abbr, ntok, expect, frames, pend>>
(* frames : stack of slot lists; frames[1] is the top level, one more per open group
   pend   : the element being written: [has, attrs (slots), text (slot or <<>>), hasText, textFields, selfClose, rep, nattr] *)

F(i, ph) == [i |-> i, ph |-> ph]
Caret == <<F(0, "")>>
NoPend == [has |-> FALSE, attrs |-> <<>>, text |-> <<>>, hasText |-> FALSE, selfClose |-> FALSE, rep |-> 1, nattr |-> 0, closed |-> FALSE, used |-> {}]

AttrForms == { [nm |-> "t", s |-> "[t]",                   slot |-> Caret],
               [nm |-> "t", s |-> "[t=\"\"]",              slot |-> Caret],
               [nm |-> "r", s |-> "[r=v]",                 slot |-> <<>>],
               [nm |-> "u", s |-> "[u=\"${2} ${1:ph}\"]",  slot |-> <<F(2, ""), F(1, "ph")>>],
               [nm |-> "w", s |-> "[w=\"a${3}\"]",         slot |-> <<F(3, "")>>],
               [nm |-> "v", s |-> "[v=\"a\rb\"]",           slot |-> <<>>] }          \* a lone carriage return inside a value
TextForms == { [s |-> "{txt}",           slot |-> <<>>],
               [s |-> "{${1}}",          slot |-> <<F(1, "")>>],
               [s |-> "{a${2:p}b${1}}",  slot |-> <<F(2, "p"), F(1, "")>>],
               [s |-> "{${0}}",          slot |-> <<F(0, "")>>],
               [s |-> "{a\nb${1}c}",     slot |-> <<F(1, "")>>],
               [s |-> "{${1:a} x\ny}",   slot |-> <<F(1, "a")>>],                    \* the field is on an earlier line than the last
               [s |-> "{${2:p}\nq${1}}", slot |-> <<F(2, "p"), F(1, "")>>],
               [s |-> "{c\rd}",          slot |-> <<>>],
               [s |-> "{a\n\nb}",        slot |-> <<>>],
               [s |-> "{${1:m\nn}z}",     slot |-> <<F(1, "m\nn")>>] }                  \* a placeholder that holds a line break                           \* an empty line in the middle of a text
Names == {"x", "y"}

Init == abbr = "" /\ ntok = 0 /\ expect = "item" /\ frames = << <<>> >> /\ pend = NoPend

Top == frames[Len(frames)]
SetTop(fr, v) == [fr EXCEPT ![Len(fr)] = v]
Tok(s) == ntok < MaxTok /\ abbr' = abbr \o s /\ ntok' = ntok + 1

(* slots contributed by the pending element, given whether it gets children *)
ElemSlots(p, hasKids) ==
    LET own == IF p.hasText THEN (IF p.text = <<>> THEN <<>> ELSE <<p.text>>)
               ELSE IF hasKids \/ p.selfClose THEN <<>>
               ELSE <<Caret>>
    IN Times(p.attrs \o own, p.rep)
Flush(hasKids) == IF pend.has THEN SetTop(frames, Top \o ElemSlots(pend, hasKids)) ELSE frames

Elem == /\ expect \in {"item", "climbed"} /\ \E n \in Names : Tok(n)
        /\ pend' = [NoPend EXCEPT !.has = TRUE] /\ expect' = "mods" /\ UNCHANGED frames
Attr == /\ expect = "mods" /\ ~pend.closed /\ ~pend.hasText /\ pend.nattr < MaxAttrs
        /\ \E a \in AttrForms : /\ a.nm \notin pend.used          \* a repeated name would be merged (C03)
                                /\ Tok(a.s)
                                /\ pend' = [pend EXCEPT !.attrs = IF a.slot = <<>> THEN @ ELSE Append(@, a.slot),
                                                         !.nattr = @ + 1, !.used = @ \cup {a.nm}]
        /\ UNCHANGED <<expect, frames>>
Text == /\ expect = "mods" /\ ~pend.closed /\ ~pend.hasText
        /\ \E t \in TextForms : /\ Tok(t.s)
                                /\ pend' = [pend EXCEPT !.hasText = TRUE, !.text = t.slot]
        /\ UNCHANGED <<expect, frames>>
SelfClose == /\ expect = "mods" /\ ~pend.closed /\ ~pend.hasText
             /\ Tok("/") /\ pend' = [pend EXCEPT !.selfClose = TRUE, !.closed = TRUE]
             /\ UNCHANGED <<expect, frames>>
Rep == /\ expect = "mods" /\ pend.rep = 1
       /\ \E n \in 2..MaxRep : Tok("*" \o ToString(n)) /\ pend' = [pend EXCEPT !.rep = n, !.closed = TRUE]
       /\ UNCHANGED <<expect, frames>>
(* operators; an element that is repeated, or whose text holds fields, gets no children here
   (children of a node with fields are spliced into its first field - outside the statement) *)
Child == /\ expect = "mods" /\ pend.rep = 1 /\ pend.text = <<>> /\ ~pend.selfClose
         /\ Tok(">") /\ frames' = Flush(TRUE) /\ pend' = NoPend /\ expect' = "item"
Sibling == /\ expect \in {"mods", "op"} /\ Tok("+") /\ frames' = Flush(FALSE) /\ pend' = NoPend /\ expect' = "item"
Climb == /\ expect \in {"mods", "op", "climbed"} /\ Tok("^") /\ frames' = Flush(FALSE) /\ pend' = NoPend /\ expect' = "climbed"
GroupOpen == /\ expect \in {"item", "climbed"} /\ Len(frames) < 3 /\ Tok("(")
             /\ frames' = Append(frames, <<>>) /\ expect' = "item" /\ UNCHANGED pend
GroupClose == /\ expect \in {"mods", "op"} /\ Len(frames) > 1 /\ (pend.has \/ expect = "op")
              /\ \E n \in 1..MaxRep :
                   /\ Tok(IF n = 1 THEN ")" ELSE ")*" \o ToString(n))
                   /\ LET fl == Flush(FALSE)
                          inner == fl[Len(fl)]
                          outer == Front(fl)
                      IN frames' = SetTop(outer, outer[Len(outer)] \o Times(inner, n))
              /\ pend' = NoPend /\ expect' = "op"
Next == Elem \/ Attr \/ Text \/ SelfClose \/ Rep \/ Child \/ Sibling \/ Climb \/ GroupOpen \/ GroupClose
Spec == Init /\ [][Next]_vars

(* a complete abbreviation ends after an element or a group *)
Complete == Len(frames) = 1 /\ ((expect = "mods" /\ pend.has) \/ expect = "op")
Slots == Flush(FALSE)[1]

(* ---------------------------------------------------------------- machine *)
RECURSIVE MaxIdx(_)
MaxIdx(slot) == IF slot = <<>> THEN -1 ELSE Max(Head(slot).i, MaxIdx(Tail(slot)))
RECURSIVE Number(_, _)
Number(slots, base) ==            \* sequence of printed slots: each a sequence of [n, ph]
    IF slots = <<>> THEN <<>>
    ELSE LET sl == Head(slots) IN
         << [k \in 1..Len(sl) |-> [n |-> base + sl[k].i, ph |-> sl[k].ph]] >> \o Number(Tail(slots), base + MaxIdx(sl) + 1)
Printed == Number(Slots, 1)
RECURSIVE Flat(_)
Flat(ss) == IF ss = <<>> THEN <<>> ELSE Head(ss) \o Flat(Tail(ss))

(* --------------------------------------------------------------- contract *)
\* explicit fields keep their relative numbering inside one value
Relative == \A k \in 1..Len(Slots) : \A a, b \in 1..Len(Slots[k]) :
               Printed[k][a].n - Printed[k][b].n = Slots[k][a].i - Slots[k][b].i
\* tabstops of different values never collide, and follow document order
Ordered == \A k1, k2 \in 1..Len(Slots) : k1 < k2 =>
               \A a \in 1..Len(Printed[k1]) : \A b \in 1..Len(Printed[k2]) : Printed[k1][a].n < Printed[k2][b].n
\* without explicit fields the tabstops are 1, 2, 3, ...
OnlyCarets == \A k \in 1..Len(Slots) : Slots[k] = Caret
CaretsCount == OnlyCarets => \A k \in 1..Len(Slots) : Printed[k][1].n = k
\* numbering starts at 1 + the index written first
StartsAtOne == Slots # <<>> => \E a \in 1..Len(Slots[1]) : Printed[1][a].n >= 1

NumberingInv == Complete => Relative /\ Ordered /\ CaretsCount /\ StartsAtOne

Dump == Complete => PrintT(<<"VEC", ToJson([abbr |-> abbr, fields |-> Flat(Printed),
                                             carets |-> OnlyCarets, nslots |-> Len(Slots)])>>)
=============================================================================
