---------------------------- MODULE AbbrSyntaxMC ----------------------------
(* Model-checking instance of AbbrSyntax: every string over Alphabet up to   *)
(* MaxLen (one character per step, as Strings.tla); prints tokens and parse  *)
(* result of the model for the comparison with the real code.                *)
EXTENDS AbbrSyntax
CONSTANTS Alphabet, MaxLen
Sym(c) == IF c = "NL" THEN "\n" ELSE IF c = "TAB" THEN "\t" ELSE IF c = "DQ" THEN "\"" ELSE Ch(c)
Init == InitSyntax
Next == (Len(s) < MaxLen /\ \E c \in Alphabet : SetInput(s \o Sym(c))) \/ Tokenize \/ Parse
Spec == Init /\ [][Next]_svars
Tiling == Ready => TilingInv
Dump == Ready => PrintT(<<"VEC", ToJson([s |-> s, out |-> SyntaxOut])>>)
=============================================================================
