---------------------------- MODULE AbbrSyntaxMC ----------------------------
(* Model-checking instance of AbbrSyntax: every string over Alphabet up to   *)
(* MaxLen (one character per step, as Strings.tla); prints tokens and parse  *)
(* result of the model for the comparison with the real code.                *)
EXTENDS AbbrSyntax
CONSTANTS Alphabet, MaxLen
Sym(c) == IF c = "NL" THEN "\n" ELSE IF c = "TAB" THEN "\t" ELSE IF c = "DQ" THEN "\"" ELSE Ch(c)
Init == s = ""
Next == Len(s) < MaxLen /\ \E c \in Alphabet : s' = s \o Sym(c)
Spec == Init /\ [][Next]_s
Dump == PrintT(<<"VEC", ToJson([s |-> s, out |-> SyntaxOut])>>)
=============================================================================
