--------------------------- MODULE AbbrConvertMC ---------------------------
(* Model-checking instance of AbbrConvert: every string over Alphabet up to  *)
(* MaxLen (one character per step; tokenize and parse are steps of their     *)
(* own); prints the outcome class and the converted node listing of the      *)
(* model for the comparison with the real emmet.abbreviation.parse().        *)
EXTENDS AbbrConvert
CONSTANTS Alphabet, MaxLen
Sym(c) == IF c = "NL" THEN "\n" ELSE IF c = "TAB" THEN "\t" ELSE IF c = "DQ" THEN "\"" ELSE Ch(c)
Init == InitSyntax
Next == (Len(s) < MaxLen /\ \E c \in Alphabet : SetInput(s \o Sym(c))) \/ Tokenize \/ Parse
Spec == Init /\ [][Next]_svars
Tiling == Ready => TilingInv
\* an error position always lies inside the string (or is the "no token" marker of the parser)
ErrorInside == Ready => LET c == Converted IN c.kind \in {"scanerr", "tokerr"} => (c.pos = -2 \/ (c.pos >= 0 /\ c.pos <= Len(s)))
\* the model never needs stringify() for a token it has no visitor for
NoInternal == Ready => Converted.kind # "internal"
Dump == Ready => PrintT(<<"VEC", ToJson([s |-> s, out |-> ConvertOut])>>)
=============================================================================
