SPECIFICATION Spec
INVARIANT CallerConfigStable
INVARIANT ResultPure
INVARIANT NoRetention
INVARIANT Dump
CHECK_DEADLOCK FALSE
