------------------------------- MODULE Strings -------------------------------
(* Shared input generator for the "all strings" properties (C07, C16, C18):  *)
(* every string over Alphabet up to MaxLen, built one character per step, so *)
(* the state graph is the prefix tree and every as-you-type prefix is a case.*)
(* Constants cannot hold a backslash or a line break: "BS" / "NL" / "CR" /   *)
(* "TAB" / "DQ"                                                              *)
(* stand for them.                                                           *)
EXTENDS Common, Json
CONSTANTS Alphabet, MaxLen
VARIABLE s
Sym(c) == IF c = "NL" THEN "\n" ELSE IF c = "CR" THEN "\r" ELSE IF c = "TAB" THEN "\t" ELSE IF c = "DQ" THEN "\"" ELSE Ch(c)
Init == s = ""
Next == Len(s) < MaxLen /\ \E c \in Alphabet : s' = s \o Sym(c)
Spec == Init /\ [][Next]_s
Dump == PrintT(<<"VEC", ToJson([s |-> s])>>)
=============================================================================
