----------------------------- MODULE AbbrGrammar -----------------------------
(* Abbreviations of the documented grammar, built online from syntactic      *)
(* fragments, with the node tree that AbbrConvert.tla (tokenizer + parser +  *)
(* convert(), transcribed from the code) computes for them.                  *)
(*                                                                           *)
(*   item  ::= name mods [ "/" ] [ "*N" | "*" ]   |   "(" items ")" [ "*N" ] *)
(*   mods  ::= ( "#id" | ".class" | "[...]" | "{text}" )*      text once     *)
(*   items ::= item ( (">" | "+" | "^"+) item )*                             *)
(* An implicit name (empty name fragment) needs at least one modifier; ">"   *)
(* follows neither a self-closed element nor a group (the statement of C01   *)
(* is silent there); "^" climbs freely outside groups (it stops at the top   *)
(* level) and inside a group only as far as ">" went down in that group.     *)
(* TLC checks that every complete abbreviation is accepted by the model of   *)
(* tokenizer and parser (Accepted), that the tokenizer tiles it (TilingInv)  *)
(* and structural facts of the converted tree (TreeFacts); the harness       *)
(* compares the tree with what the real emmet.abbreviation.parse() returns.  *)
EXTENDS AbbrPrint

CONSTANTS NameFr,        \* element names; "" = implicit name
          ModFr,         \* modifiers: "#i", ".c", "[t=v]", "{txt}" ... (kind = first character)
          RepFr,         \* repeaters: "*2", "*" ...
          OpFr,          \* subset of {">", "+", "^", "^^"}
          MaxFrag, MaxGroups, MaxMods,
          ScChild,       \* TRUE: ">" may also follow an element that carries the self-closing mark
          TreeOnly       \* TRUE: print the converted tree only (not the markup of AbbrPrint.tla)

VARIABLES expect, nfrag, lvl, grp, nmods, hasText, need, sc
gvars == <<s, tokres, parsed, phase, expect, nfrag, lvl, grp, nmods, hasText, need, sc>>
(* expect : "item" | "mods" (an element is being written) | "slash" (after "/") | "closed" (after a repeater) | "op" (after a group)
   lvl    : how far ">" went down inside the current group; grp : stack of the lvl values of the enclosing groups
   need   : the element has an implicit name and no modifier yet;  sc : the element carries the self-closing mark *)

GInit == InitSyntax /\ expect = "item" /\ nfrag = 0 /\ lvl = 0 /\ grp = <<>> /\ nmods = 0 /\ hasText = FALSE /\ need = FALSE /\ sc = FALSE
Frag(f) == nfrag < MaxFrag /\ nfrag' = nfrag + 1 /\ SetInput(s \o Subst(f))       \* BS / DQ / NL / CR inside a fragment are spelled by name

Name == /\ expect = "item" /\ \E f \in NameFr : Frag(f) /\ need' = (f = "")
        /\ expect' = "mods" /\ nmods' = 0 /\ hasText' = FALSE /\ sc' = FALSE /\ UNCHANGED <<lvl, grp>>
Mod == /\ expect = "mods" /\ nmods < MaxMods
       /\ \E f \in ModFr : /\ (SubSeq(f, 1, 1) = "{" => ~hasText)
                           /\ Frag(f) /\ hasText' = (hasText \/ SubSeq(f, 1, 1) = "{")
       /\ nmods' = nmods + 1 /\ need' = FALSE /\ UNCHANGED <<expect, lvl, grp, sc>>
SelfClose == /\ expect = "mods" /\ ~need /\ ~hasText /\ Frag("/") /\ expect' = "slash" /\ sc' = TRUE
             /\ UNCHANGED <<lvl, grp, nmods, hasText, need>>
Rep == /\ expect \in {"mods", "slash"} /\ ~need
       /\ \E f \in RepFr : Frag(f)
       /\ expect' = "closed" /\ UNCHANGED <<lvl, grp, nmods, hasText, need, sc>>
Op == /\ expect \in {"mods", "slash", "closed", "op"} /\ ~need
      /\ \E o \in OpFr :
           /\ (o = ">" => expect # "op" /\ (ScChild \/ ~sc))
           /\ (SubSeq(o, 1, 1) = "^" => grp = <<>> \/ lvl >= Len(o))      \* at the top level a climb stops; inside a group it stays in the group here
           /\ Frag(o)
           /\ lvl' = IF o = ">" THEN lvl + 1 ELSE IF o = "+" THEN lvl ELSE Max(0, lvl - Len(o))
      /\ expect' = "item" /\ sc' = FALSE /\ UNCHANGED <<grp, nmods, hasText, need>>
GroupOpen == /\ expect = "item" /\ Len(grp) < MaxGroups /\ Frag("(")
             /\ grp' = Append(grp, lvl) /\ lvl' = 0 /\ UNCHANGED <<expect, nmods, hasText, need, sc>>
GroupClose == /\ expect \in {"mods", "slash", "closed", "op"} /\ ~need /\ grp # <<>>
              /\ \E f \in {")"} \cup {")" \o r : r \in RepFr \ {"*"}} : Frag(f)
              /\ lvl' = grp[Len(grp)] /\ grp' = SubSeq(grp, 1, Len(grp) - 1) /\ expect' = "op"
              /\ sc' = FALSE /\ UNCHANGED <<nmods, hasText, need>>
genv == <<expect, nfrag, lvl, grp, nmods, hasText, need, sc>>
GNext == Name \/ Mod \/ SelfClose \/ Rep \/ Op \/ GroupOpen \/ GroupClose \/ ((Tokenize \/ Parse) /\ UNCHANGED genv)
GSpec == GInit /\ [][GNext]_gvars

Complete == Ready /\ grp = <<>> /\ ~need /\ expect \in {"mods", "slash", "closed", "op"}

(* ------------------------------------------------------------- invariants *)
Accepted == Complete => Converted.kind = "ok"
Tiling == Complete => TilingInv
\* facts of the converted tree that hold for every abbreviation of the grammar
\* C12 on the model: the output of the transcribed HTML formatter (formatting on, default options), read back by the scanner
\* transcription, has every line at the depth of the elements open there and closing tags under their open tags (AbbrPrint!LayoutOk)
LayoutInv == Complete => LayoutOk
TreeFacts == Complete => LET L == ConvertOut.nodes IN
                /\ L # <<>> /\ L[1].d = 0
                /\ \A i \in 2..Len(L) : L[i].d <= L[i - 1].d + 1                 \* pre-order listing of a forest
GDump == Complete =>
           IF TreeOnly THEN PrintT(<<"VEC", ToJson([s |-> s, out |-> ConvertOut, printed |-> ""])>>)     \* large trees: the printers are quadratic in TLC
           ELSE PrintT(<<"VEC", ToJson([s |-> s, out |-> ConvertOut, printed |-> Printed, fmt |-> PrintedFmt,
                                              indent |-> [pug |-> IndentPrinted("pug"), haml |-> IndentPrinted("haml"), slim |-> IndentPrinted("slim")],
                                              marked |-> [html |-> PrintedF, htmlc |-> PrintedFC, pug |-> IndentPrintedF("pug"), haml |-> IndentPrintedF("haml"), slim |-> IndentPrintedF("slim")]])>>)
=============================================================================
