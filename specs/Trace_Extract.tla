---------------------------- MODULE Trace_Extract ----------------------------
(* C11, consistency clause - every result of extract() is consistent with    *)
(* the line.  A trace is one line; an event is one call                      *)
(*   [pos, type ("markup" | "stylesheet"), prefix, la (lookAhead), exc,      *)
(*    none, abbreviation, location, start, end]                              *)
(* Clauses: raised, range (0 <= start <= location <= end <= len),            *)
(* abbreviation-is-not-the-text, dangling-operator, prefix-not-at-start,     *)
(* look-ahead (end - clamped pos = at most one quote, then closing brackets  *)
(* of the type; no movement without lookAhead).                              *)
EXTENDS Common, Json, IOUtils
Traces == ndJsonDeserialize(IOEnv.TRACE_FILE)
VARIABLES tid, l, ok
vars == <<tid, l, ok>>
Tr == Traces[tid]
LineT == Tr.line
N == Len(LineT)
Ev == Tr.calls
Init == tid \in 1..Len(Traces) /\ l = 1 /\ ok = "ok"
Sl(a, b) == IF a >= b THEN "" ELSE SubSeq(LineT, a + 1, b)
Clamp(p) == Min(N, Max(0, p))
IsCloser(c, ty) == c = ")" \/ (ty = "markup" /\ c \in {"]", "}"})
RECURSIVE AllClosers(_, _, _)
AllClosers(a, b, ty) == a >= b \/ (IsCloser(Sl(a, a + 1), ty) /\ AllClosers(a + 1, b, ty))
LookAheadOk(e) == LET p == Clamp(e.pos) IN
                  IF ~e.la THEN e.end = p
                  ELSE /\ e.end >= p
                       /\ (LET q == IF p < e.end /\ Sl(p, p + 1) \in {"\"", "'"} THEN p + 1 ELSE p IN AllClosers(q, e.end, e.type))
Judge(e) == IF e.exc THEN "raised"
            ELSE IF e.none THEN "ok"
            ELSE IF ~(0 <= e.start /\ e.start <= e.location /\ e.location <= e.end /\ e.end <= N) THEN "range"
            ELSE IF e.abbreviation # Sl(e.location, e.end) THEN "abbreviation-is-not-the-text"
            ELSE IF e.abbreviation # "" /\ SubSeq(e.abbreviation, 1, 1) \in {">", "+", "^", "*"} THEN "dangling-operator"
            ELSE IF e.prefix # "" /\ (Sl(e.start, e.start + Len(e.prefix)) # e.prefix \/ e.location < e.start + Len(e.prefix)) THEN "prefix-not-at-start"
            ELSE IF e.prefix = "" /\ e.start # e.location THEN "start-differs-from-location-without-prefix"
            ELSE IF ~LookAheadOk(e) THEN "look-ahead"
            ELSE "ok"
Call == /\ l <= Len(Ev) /\ ok = "ok" /\ ok' = Judge(Ev[l]) /\ l' = l + 1 /\ UNCHANGED tid
Next == Call
Spec == Init /\ [][Next]_vars
Verdict == /\ (ok # "ok" => PrintT(<<"REJECT", Tr.tid, l - 1, ok>>))
           /\ ((ok = "ok" /\ l = Len(Ev) + 1) => PrintT(<<"ACCEPT", Tr.tid>>))
=============================================================================
