SPECIFICATION Spec
INVARIANT ContractInv
INVARIANT NoDuplicates
INVARIANT EmitInv
INVARIANT Dump
CHECK_DEADLOCK FALSE
