SPECIFICATION GSpec
INVARIANT TreeInv
INVARIANT ContentInv
INVARIANT GDump
CHECK_DEADLOCK FALSE
