----------------------------- MODULE AbbrResolve -----------------------------
(* C14 - a snippet alias expands exactly like its definition, and resolution *)
(* ends.                                                                     *)
(*                                                                           *)
(* Every user snippet table over Keys whose definitions are drawn from       *)
(* DefShapes (a name, a name with an attribute, a name with text, a name     *)
(* with one child, two siblings - over the keys themselves and a plain       *)
(* element, so self-reference, mutual recursion, chains and equal texts all  *)
(* occur) is an initial state; the alias uses (plain, with class, attribute, *)
(* text, repeater, self-closing mark, children) are the steps.               *)
(* Machine : resolve_snippets() as recursive rewriting with the stack of     *)
(*   definition TEXTS in progress (the cycle guard), merge of the alias'     *)
(*   attributes / text / self-closing mark into EVERY top-level node of the  *)
(*   resolved definition, children re-attached below its deepest last node.  *)
(* Checked : DepthBound (stack never deeper than the number of distinct      *)
(*   definitions), termination (the evaluation itself), AliasIsDefinition    *)
(*   (expanding the alias = expanding its definition written in its place,   *)
(*   whenever the definition is not already being resolved).                 *)
EXTENDS Common, Json

CONSTANTS Keys, Plain, DefShapes, UseIdx,
          Reverses       \* subset of BOOLEAN: which settings of output.reverseAttributes are generated

NONE == "<none>"
Nm == Keys \cup Plain
Item(n, attr, text, sc, rep, kids) == [n |-> n, attr |-> attr, text |-> text, sc |-> sc, rep |-> rep, kids |-> kids]
\* an item carries a sequence of attribute mentions <<name, value>>: .c is <<"class", "c">>, [p=1] is <<"p", "1">>
NoA == <<>>
Cls(v) == <<"class", v>>
Leaf(n) == Item(n, NoA, NONE, FALSE, 1, <<>>)
Defs == (IF "leaf" \in DefShapes THEN { <<Leaf(n)>> : n \in Nm } ELSE {})
        \cup (IF "attr" \in DefShapes THEN { <<Item(n, <<<<"p", "1">>>>, NONE, FALSE, 1, <<>>)>> : n \in Nm } ELSE {})
        \cup (IF "cls" \in DefShapes THEN { <<Item(n, <<Cls("e")>>, NONE, FALSE, 1, <<>>)>> : n \in Nm } ELSE {})
        \cup (IF "impl" \in DefShapes THEN { <<Item("?", <<Cls("e"), <<"r", "n">>>>, NONE, FALSE, 1, <<>>)>> } ELSE {})      \* .e[r=n]: implicit name
        \cup (IF "implchild" \in DefShapes THEN { <<Item("?", <<Cls("e")>>, NONE, FALSE, 1, <<Leaf(c)>>)>> : c \in Nm } ELSE {})      \* .e>c: implicit name above a key
        \cup (IF "text" \in DefShapes THEN { <<Item(n, NoA, "u", FALSE, 1, <<>>)>> : n \in Nm } ELSE {})
        \cup (IF "child" \in DefShapes THEN { <<Item(n, NoA, NONE, FALSE, 1, <<Leaf(c)>>)>> : n \in Nm, c \in Nm } ELSE {})
        \cup (IF "siblings" \in DefShapes THEN { <<Leaf(a), Leaf(b)>> : a \in Nm, b \in Nm } ELSE {})
Uses == << <<Leaf("k1")>>,
           <<Item("k1", NoA, NONE, FALSE, 1, <<Leaf("k2")>>)>>,
           <<Item("k1", <<Cls("c")>>, NONE, FALSE, 1, <<>>)>>,
           <<Item("k1", NoA, "t", FALSE, 1, <<>>)>>,
           <<Item("k1", NoA, NONE, FALSE, 2, <<>>)>>,
           <<Item("k1", NoA, NONE, TRUE, 1, <<>>)>>,
           <<Item("k1", <<<<"q", "2">>>>, NONE, FALSE, 1, <<Leaf("y")>>)>>,
           <<Leaf("y"), Item("k2", <<Cls("c")>>, "t", FALSE, 1, <<Leaf("k1")>>)>>,
           <<Item("k1", <<Cls("c"), Cls("d")>>, NONE, FALSE, 1, <<>>)>>,                          \* several class mentions
           <<Item("k1", <<Cls("c"), <<"p", "3">>, Cls("d")>>, NONE, FALSE, 1, <<>>)>>,           \* class, overriding attribute, class
           <<Item("k1", <<<<"q", "2">>, <<"q", "4">>>>, NONE, FALSE, 2, <<Leaf("y")>>)>>,         \* repeated attribute, repeater, child
           <<Item("k2", <<Cls("c"), Cls("d"), Cls("c")>>, "t", FALSE, 1, <<>>)>> >>

VARIABLES table, use, reverse          \* reverse: output.reverseAttributes
vars == <<table, use, reverse>>
Init == table \in [Keys -> Defs] /\ use = 0 /\ reverse \in Reverses
Next == use = 0 /\ use' \in UseIdx /\ UNCHANGED <<table, reverse>>
Spec == Init /\ [][Next]_vars

(* -------------------------------------------------------------- rendering *)
RECURSIVE AttrText(_)
AttrText(ms) == IF ms = <<>> THEN ""
                ELSE (IF Head(ms)[1] = "class" THEN "." \o Head(ms)[2] ELSE "[" \o Head(ms)[1] \o "=" \o Head(ms)[2] \o "]") \o AttrText(Tail(ms))
RECURSIVE Render(_)
RenderItem(it) == (IF it.n = "?" THEN "" ELSE it.n) \o AttrText(it.attr) \o (IF it.text = NONE THEN "" ELSE "{" \o it.text \o "}")
                  \o (IF it.sc THEN "/" ELSE "") \o (IF it.rep > 1 THEN "*" \o ToString(it.rep) ELSE "")
                  \o (IF it.kids = <<>> THEN "" ELSE ">" \o Render(it.kids))
Render(items) == IF items = <<>> THEN "" ELSE RenderItem(items[1]) \o (IF Len(items) > 1 THEN "+" \o Render(Tail(items)) ELSE "")

(* ---------------------------------------------------------------- machine *)
InStack(st, df) == \E i \in 1..Len(st) : st[i] = df
\* merge_attributes(): a repeated class is joined with a blank, any other repeated name keeps its first position and takes the last
\* value (the first one under output.reverseAttributes)
AddMention(attrs, m) == IF \E i \in 1..Len(attrs) : attrs[i][1] = m[1]
                        THEN [i \in 1..Len(attrs) |-> IF attrs[i][1] # m[1] THEN attrs[i]
                                                      ELSE IF m[1] = "class" THEN <<m[1], attrs[i][2] \o " " \o m[2]>>
                                                      ELSE IF reverse THEN attrs[i] ELSE m]
                        ELSE Append(attrs, m)
RECURSIVE AddAttr(_, _)
AddAttr(attrs, ms) == IF ms = <<>> THEN attrs ELSE AddAttr(AddMention(attrs, Head(ms)), Tail(ms))
\* an entry keeps the raw mention list (resolve() concatenates lists; merge_attributes() runs once, afterwards)
\* an element without name gets the implicit name div here (no parent of the model asks for another one)
Entry(d, it) == [d |-> d, n |-> IF it.n = "?" THEN "div" ELSE it.n, attrs |-> it.attr, text |-> it.text, sc |-> it.sc]
Final(l) == [j \in 1..Len(l) |-> [l[j] EXCEPT !.attrs = AddAttr(<<>>, @)]]
\* resolve(): own attributes then the alias' attributes - the other way round under output.reverseAttributes
Merge(e, it) == [e EXCEPT !.attrs = IF it.attr = <<>> THEN @ ELSE IF reverse THEN it.attr \o @ ELSE @ \o it.attr, !.text = IF it.text # NONE THEN it.text ELSE @, !.sc = @ \/ it.sc]
RECURSIVE ExpItems(_, _, _), ExpItem(_, _, _)
\* result [l: listing, md: deepest stack seen]
ExpOnce(it, st, d) ==
    IF it.n \in Keys /\ ~InStack(st, Render(table[it.n]))
    THEN LET df == table[it.n]
             R == ExpItems(df, Append(st, Render(df)), d)
             merged == [j \in 1..Len(R.l) |-> IF R.l[j].d = d THEN Merge(R.l[j], it) ELSE R.l[j]]
             kd == IF R.l = <<>> THEN d ELSE Last(R.l).d + 1
             K == ExpItems(it.kids, st, kd)
         IN [l |-> merged \o K.l, md |-> Max(R.md, K.md)]
    ELSE LET K == ExpItems(it.kids, st, d + 1) IN [l |-> <<Entry(d, it)>> \o K.l, md |-> Max(Len(st), K.md)]
ExpItem(it, st, d) == LET o == ExpOnce(it, st, d) IN [l |-> Times(o.l, it.rep), md |-> o.md]
ExpItems(items, st, d) ==
    IF items = <<>> THEN [l |-> <<>>, md |-> Len(st)]
    ELSE LET a == ExpItem(items[1], st, d) b == ExpItems(Tail(items), st, d) IN [l |-> a.l \o b.l, md |-> Max(a.md, b.md)]

Raw == ExpItems(Uses[use], <<>>, 0)
Result == [l |-> Final(Raw.l), md |-> Raw.md]
DistinctDefs == Cardinality({Render(table[k]) : k \in Keys})
DepthBound == use # 0 => Result.md <= DistinctDefs

(* contract: writing the definition in place of the alias gives the same expansion.  "In place" for a single-item
   definition: the alias' attribute / text / self-closing mark / repeater / children are written on that item;
   the guard of the machine is what makes the two sides differ when the definition refers to itself. *)
InPlace(it) == LET df == table[it.n] IN
               IF Len(df) = 1 /\ df[1].kids = <<>>
               THEN <<[df[1] EXCEPT !.attr = IF reverse THEN it.attr \o @ ELSE @ \o it.attr, !.text = IF it.text # NONE THEN it.text ELSE @,
                                    !.sc = @ \/ it.sc, !.rep = it.rep, !.kids = it.kids]>>
               ELSE <<>>
AliasIsDefinition ==
    (use # 0 /\ Len(Uses[use]) = 1) =>
        LET it == Uses[use][1] IN
        (it.n \in Keys /\ InPlace(it) # <<>> /\ table[it.n][1].n \notin Keys) =>
            Final(ExpItems(InPlace(it), <<>>, 0).l) = Result.l

Dump == use # 0 => PrintT(<<"VEC", ToJson([t |-> [k \in Keys |-> Render(table[k])], abbr |-> Render(Uses[use]), reverse |-> reverse, out |-> Result.l, md |-> Result.md])>>)
=============================================================================
