SPECIFICATION Spec
INVARIANT Dump
CHECK_DEADLOCK FALSE
