SPECIFICATION Spec
INVARIANT CallerConfigStable
INVARIANT ResultPure
INVARIANT NoRetention
CHECK_DEADLOCK FALSE
