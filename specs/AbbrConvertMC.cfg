SPECIFICATION Spec
INVARIANT Tiling
INVARIANT ErrorInside
INVARIANT NoInternal
INVARIANT Dump
CHECK_DEADLOCK FALSE
