--------------------------- MODULE CssTokenizerMC ---------------------------
(* Model-checking instance of CssTokenizer: every string over Alphabet up to *)
(* MaxLen (one character per step); TLC checks the tiling clause of C18 on   *)
(* the model's token list and prints it for the comparison with the real     *)
(* tokenizer in the same mode (IsValue).                                     *)
EXTENDS CssTokenizer, Json
CONSTANTS Alphabet, MaxLen
Sym(c) == IF c = "NL" THEN "\n" ELSE IF c = "TAB" THEN "\t" ELSE IF c = "DQ" THEN "\"" ELSE Ch(c)
Init == s = ""
Next == Len(s) < MaxLen /\ \E c \in Alphabet : s' = s \o Sym(c)
Spec == Init /\ [][Next]_s
Tiling == TilingOf(Tokens)
Dump == LET r == Tokens IN PrintT(<<"VEC", ToJson([s |-> s, err |-> r.err, toks |-> [k \in 1..Len(r.toks) |-> <<r.toks[k].t, r.toks[k].s, r.toks[k].e>>]])>>)
=============================================================================
