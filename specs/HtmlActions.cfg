SPECIFICATION Spec
INVARIANT TruthInv
INVARIANT SelInv
INVARIANT NextPrevInv
INVARIANT DumpActions
CHECK_DEADLOCK FALSE
