---------------------------- MODULE Trace_Outcome ----------------------------
(* C07 - expand() fails only with its two parse errors.                      *)
(* A trace is one input string; an event is one expand() call on it under    *)
(* one configuration with the observed outcome:                              *)
(*   kind  "str" | "scanner-error" | "token-error" | "internal" | "timeout"  *)
(*         | "not-a-string"                                                  *)
(*   pos   reported position (-1 when the error carries none)                *)
(* The outcome machine has two accepting classes; everything else rejects.   *)
EXTENDS Common, Json, IOUtils

Traces == ndJsonDeserialize(IOEnv.TRACE_FILE)
VARIABLES tid, l, ok
vars == <<tid, l, ok>>
Tr == Traces[tid]
Ev == Tr.calls
Init == tid \in 1..Len(Traces) /\ l = 1 /\ ok = "ok"

Judge(e) == IF e.kind = "str" THEN "ok"
            ELSE IF e.kind \in {"scanner-error", "token-error"}
                 THEN (IF e.pos = -1 \/ (e.pos >= 0 /\ e.pos <= Tr.len) THEN "ok" ELSE "error-position-outside-input")
            ELSE IF e.kind = "timeout" THEN "does-not-terminate"
            ELSE IF e.kind = "not-a-string" THEN "returned-something-else"
            ELSE "internal-error"
Call == /\ l <= Len(Ev) /\ ok = "ok" /\ ok' = Judge(Ev[l]) /\ l' = l + 1 /\ UNCHANGED tid
Next == Call
Spec == Init /\ [][Next]_vars
Verdict == /\ (ok # "ok" => PrintT(<<"REJECT", Tr.tid, l - 1, ok>>))
           /\ ((ok = "ok" /\ l = Len(Ev) + 1) => PrintT(<<"ACCEPT", Tr.tid>>))
=============================================================================
