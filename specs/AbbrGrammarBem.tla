--------------------------- MODULE AbbrGrammarBem ---------------------------
(* The documented-grammar generator (AbbrGrammar.tla) with the BEM addon     *)
(* (AbbrBem.tla) applied to the transformed tree: prints, for every complete *)
(* abbreviation, the markup expand() returns with bem.enabled and formatting *)
(* off.                                                                      *)
EXTENDS AbbrGrammar, AbbrBem
BDump == Complete => PrintT(<<"VEC", ToJson([s |-> s, bem |-> PrintedBem])>>)
=============================================================================
