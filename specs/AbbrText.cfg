SPECIFICATION Spec
INVARIANT TextInv
INVARIANT LengthInv
INVARIANT Dump
CHECK_DEADLOCK FALSE
