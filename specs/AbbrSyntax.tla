----------------------------- MODULE AbbrSyntax -----------------------------
(* emmet.abbreviation: tokenize() and the token parser, transcribed branch  *)
(* by branch as functions of the string held in the variable `s` (0-based    *)
(* positions as in the code).                                                *)
(*   tokenizer: field ${n:placeholder} with nested braces and both           *)
(*     "Expecting }" errors, $# placeholder, $-numbering with @ ^ - base,    *)
(*     repeater (only where a repeater is allowed), white space, literal     *)
(*     with its context rules (quote, attribute, expression nesting, the     *)
(*     digit/digit rule, escapes), operators, quotes, brackets;              *)
(*     "Unexpected character"                                                *)
(*   parser: statements / group / element / attribute_set / attribute /      *)
(*     short_attribute / quoted / literal / text with both parse errors and  *)
(*     their positions; bracket counters may go negative (and are then       *)
(*     "true"), two items without operator are siblings, group() swallows    *)
(*     one arbitrary token where it expects ")"                              *)
(* Validated in round 0 against the real code on 475 255 strings of length   *)
(* <= 4 and 1.8 M longer ones; re-validated by the C18 check on every run    *)
(* (model-vs-code comparison, reported as a diagnostic).                     *)
EXTENDS Common, Json

VARIABLES s,          \* the abbreviation
          tokres,     \* the result of the tokenizer on s: [toks, err]
          parsed,     \* the result of the token parser on tokres
          phase          \* pipeline phase: 0 = s is new, 1 = tokenized, 2 = parsed (ready)
svars == <<s, tokres, parsed, phase>>
(* The pipeline of the code - tokenize, parse (, convert) - is one action per stage: SetInput, Tokenize, Parse.  Besides mirroring
   the code this keeps TLC fast: a definition that depends on the state is re-evaluated at every use, a variable is not. *)

\* ---- character access, 0-based positions as in the code
N == Len(s)
C(p) == IF p >= 0 /\ p < N THEN SubSeq(s, p+1, p+1) ELSE ""
Sub(a, b) == IF b > a THEN SubSeq(s, a+1, b) ELSE ""
IsNum(c) == IsDigit(c)
IsQuote(c) == c \in {"'", "\""}
OpType(c) == CASE c = ">" -> "child" [] c = "+" -> "sibling" [] c = "^" -> "climb" [] c = "." -> "class"
               [] c = "#" -> "id" [] c = "/" -> "close" [] c = "=" -> "equal" [] OTHER -> ""
BrType(c) == CASE c \in {"(",")"} -> "group" [] c \in {"[","]"} -> "attribute" [] c \in {"{","}"} -> "expression" [] OTHER -> ""
IsOpenBr(c) == c \in {"(","[","{"}
IsElemName(c) == IsNum(c) \/ IsAlpha(c) \/ c \in {"_","-",":","!"}

RECURSIVE EatWhile(_, _)
EatWhile(p, cls) == IF p < N /\ ((cls = "num" /\ IsNum(C(p))) \/ (cls = "dollar" /\ C(p) = "$") \/ (cls = "space" /\ IsSpace(C(p))) \/ (cls = "climb" /\ C(p) = "^"))
                    THEN EatWhile(p+1, cls) ELSE p

\* consume_placeholder: returns [p |-> end, err |-> -1 or error position]
RECURSIVE Placeholder(_, _)
Placeholder(p, stack) ==
    IF p >= N THEN [p |-> p, stack |-> stack]
    ELSE IF C(p) = "{" THEN Placeholder(p+1, Append(stack, p+1))
    ELSE IF C(p) = "}" THEN (IF stack = <<>> THEN [p |-> p, stack |-> stack] ELSE Placeholder(p+1, SubSeq(stack, 1, Len(stack)-1)))
    ELSE Placeholder(p+1, stack)

NoTok == [t |-> "none"]
Err(p) == [t |-> "error", pos |-> p]

Field(p, ctx) ==
    IF ~((ctx.expression # 0 \/ ctx.attribute # 0) /\ C(p) = "$" /\ C(p+1) = "{") THEN NoTok
    ELSE LET q == p + 2
             d == EatWhile(q, "num")
         IN IF d > q THEN
               (IF C(d) = ":" THEN
                   LET ph == Placeholder(d+1, <<>>) IN
                   IF ph.stack # <<>> THEN Err(ph.stack[Len(ph.stack)])
                   ELSE IF C(ph.p) = "}" THEN [t |-> "Field", s |-> p, e |-> ph.p + 1] ELSE Err(ph.p)
                ELSE IF C(d) = "}" THEN [t |-> "Field", s |-> p, e |-> d + 1] ELSE Err(d))
            ELSE IF IsAlpha(C(q)) THEN
                   LET ph == Placeholder(q, <<>>) IN
                   IF ph.stack # <<>> THEN Err(ph.stack[Len(ph.stack)])
                   ELSE IF C(ph.p) = "}" THEN [t |-> "Field", s |-> p, e |-> ph.p + 1] ELSE Err(ph.p)
            ELSE IF C(q) = "}" THEN [t |-> "Field", s |-> p, e |-> q + 1] ELSE Err(q)

RepPlaceholder(p) == IF C(p) = "$" /\ C(p+1) = "#" THEN [t |-> "RepeaterPlaceholder", s |-> p, e |-> p+2] ELSE NoTok

RepNumber(p) ==
    LET d == EatWhile(p, "dollar") IN
    IF d = p THEN NoTok
    ELSE IF C(d) # "@" THEN [t |-> "RepeaterNumber", s |-> p, e |-> d]
    ELSE LET c1 == EatWhile(d+1, "climb")
             c2 == IF C(c1) = "-" THEN c1 + 1 ELSE c1
             c3 == EatWhile(c2, "num")
         IN [t |-> "RepeaterNumber", s |-> p, e |-> c3]

Repeater(p) == IF C(p) = "*" THEN [t |-> "Repeater", s |-> p, e |-> EatWhile(p+1, "num")] ELSE NoTok

WhiteSp(p) == LET d == EatWhile(p, "space") IN IF d > p THEN [t |-> "WhiteSpace", s |-> p, e |-> d] ELSE NoTok

AllowedOp(c, ctx, expr) == OpType(c) # "" /\ ctx.quote = "" /\ expr = 0 /\ (ctx.attribute = 0 \/ OpType(c) = "equal")

\* literal: returns [p |-> end position, expr |-> resulting expression depth]
RECURSIVE LitLoop(_, _, _, _)
LitLoop(p, ctx, exprStart, expr) ==
    IF p >= N THEN [p |-> p, expr |-> expr]
    ELSE LET ch == C(p) IN
    IF ch = "\\" THEN LitLoop((IF p + 1 < N THEN p + 2 ELSE p + 1), ctx, exprStart, expr)
    ELSE IF ch = "/" /\ ctx.quote = "" /\ expr = 0 /\ ctx.attribute = 0 /\ IsNum(C(p-1)) /\ IsNum(C(p+1))
         THEN LitLoop(p+1, ctx, exprStart, expr)
    ELSE IF (ctx.quote # "" /\ ch = ctx.quote) \/ ch = "$" \/ AllowedOp(ch, ctx, expr) THEN [p |-> p, expr |-> expr]
    ELSE IF exprStart # 0 THEN
            (IF ch = "{" THEN LitLoop(p+1, ctx, exprStart, expr + 1)
             ELSE IF ch = "}" THEN (IF expr > exprStart THEN LitLoop(p+1, ctx, exprStart, expr - 1) ELSE [p |-> p, expr |-> expr])
             ELSE LitLoop(p+1, ctx, exprStart, expr))
    ELSE IF ctx.quote = "" THEN
            (IF ctx.attribute = 0 /\ ~IsElemName(ch) THEN [p |-> p, expr |-> expr]
             ELSE IF (IsSpace(ch) /\ expr = 0) \/ (ch = "*" /\ ctx.attribute = 0 /\ expr = 0) \/ IsQuote(ch) \/ BrType(ch) # ""
                  THEN [p |-> p, expr |-> expr]
             ELSE LitLoop(p+1, ctx, exprStart, expr))
    ELSE LitLoop(p+1, ctx, exprStart, expr)

\* one tokenizer iteration: returns [tok, ctx']
Step(p, ctx) ==
    LET f == Field(p, ctx) IN
    IF f.t # "none" THEN [tok |-> f, ctx |-> ctx]
    ELSE IF RepPlaceholder(p).t # "none" THEN [tok |-> RepPlaceholder(p), ctx |-> ctx]
    ELSE IF RepNumber(p).t # "none" THEN [tok |-> RepNumber(p), ctx |-> ctx]
    ELSE IF ctx.attribute = 0 /\ ctx.expression = 0 /\ Repeater(p).t # "none" THEN [tok |-> Repeater(p), ctx |-> ctx]      \* is_allowed_repeater
    ELSE IF WhiteSp(p).t # "none" THEN [tok |-> WhiteSp(p), ctx |-> ctx]
    ELSE LET l == LitLoop(p, ctx, (IF ctx.expression # 0 THEN 1 ELSE 0), ctx.expression) IN      \* the literal belongs to the outermost expression also when it continues inside nested braces
         IF l.p > p THEN [tok |-> [t |-> "Literal", s |-> p, e |-> l.p], ctx |-> [ctx EXCEPT !.expression = l.expr]]
         ELSE IF OpType(C(p)) # "" THEN [tok |-> [t |-> "Operator", s |-> p, e |-> p+1], ctx |-> ctx]
         ELSE IF IsQuote(C(p)) THEN [tok |-> [t |-> "Quote", s |-> p, e |-> p+1], ctx |-> [ctx EXCEPT !.quote = IF C(p) = ctx.quote THEN "" ELSE C(p)]]
         ELSE IF BrType(C(p)) # "" THEN [tok |-> [t |-> "Bracket", s |-> p, e |-> p+1],
                                          ctx |-> [ctx EXCEPT ![BrType(C(p))] = @ + (IF IsOpenBr(C(p)) THEN 1 ELSE -1)]]
         ELSE [tok |-> Err(p), ctx |-> ctx]

RECURSIVE Run(_, _, _)
Run(p, ctx, acc) ==
    IF p >= N THEN [toks |-> acc, err |-> -1]
    ELSE LET r == Step(p, ctx) IN
         IF r.tok.t = "error" THEN [toks |-> acc, err |-> r.tok.pos]
         ELSE Run(r.tok.e, r.ctx, Append(acc, r.tok))
Ctx0 == [group |-> 0, attribute |-> 0, expression |-> 0, quote |-> ""]
TokCalc == Run(0, Ctx0, <<>>)          \* tokenize(s)
Result == tokres


\* =====================  token-level parser over T == Result.toks  =====================
T == Result.toks
NT == Len(T)
\* token predicates by source characters (0-based token index k in 0..NT-1)
Tk(k) == T[k+1]
Has(k) == k >= 0 /\ k < NT
TC(k) == C(Tk(k).s)
IsOp(k, ty) == Has(k) /\ Tk(k).t = "Operator" /\ (ty = "" \/ OpType(TC(k)) = ty)
IsBr(k, cx, open) == Has(k) /\ Tk(k).t = "Bracket" /\ (cx = "" \/ BrType(TC(k)) = cx) /\ (open = "any" \/ (open = "open") = IsOpenBr(TC(k)))
IsQ(k) == Has(k) /\ Tk(k).t = "Quote"
IsWS(k) == Has(k) /\ Tk(k).t = "WhiteSpace"
IsRep(k) == Has(k) /\ Tk(k).t = "Repeater"
IsLit(k) == Has(k) /\ Tk(k).t = "Literal"
IsElemNameTok(k) == Has(k) /\ Tk(k).t \in {"Literal", "RepeaterNumber", "RepeaterPlaceholder"}

PErr(k) == [err |-> IF Has(k) THEN Tk(k).s ELSE -2]     \* -2: error without position (token None)

\* text(): returns end position or -1
RECURSIVE TextLoop(_, _)
TextLoop(k, br) == IF ~Has(k) THEN k
                   ELSE IF IsBr(k, "expression", "any") THEN
                          (IF IsOpenBr(TC(k)) THEN TextLoop(k+1, br+1)
                           ELSE IF br = 0 THEN k+1 ELSE TextLoop(k+1, br-1))
                   ELSE TextLoop(k+1, br)
Text(k) == IF IsBr(k, "expression", "open") THEN TextLoop(k+1, 0) ELSE -1
GetText(a, b) == LET a2 == IF IsBr(a, "expression", "open") THEN a+1 ELSE a
                     b2 == IF IsBr(b-1, "expression", "close") THEN b-1 ELSE b
                 IN <<a2, b2>>

\* literal(): returns end position (= k if nothing consumed)
RECURSIVE LitTok(_, _, _)
LitTok(k, allow, br) ==
    IF ~Has(k) THEN k
    ELSE IF br.expression # 0 THEN
            (IF IsBr(k, "expression", "any") THEN LitTok(k+1, allow, [br EXCEPT !.expression = @ + (IF IsOpenBr(TC(k)) THEN 1 ELSE -1)])
             ELSE LitTok(k+1, allow, br))
    ELSE IF IsQ(k) \/ IsOp(k, "") \/ IsWS(k) \/ IsRep(k) THEN k
    ELSE IF IsBr(k, "", "any") THEN
            (IF ~allow THEN k
             ELSE LET cx == BrType(TC(k)) IN
                  IF IsOpenBr(TC(k)) THEN LitTok(k+1, allow, [br EXCEPT ![cx] = @ + 1])
                  ELSE IF br[cx] = 0 THEN k
                  ELSE LitTok(k+1, allow, [br EXCEPT ![cx] = @ - 1]))
    ELSE LitTok(k+1, allow, br)
Br0 == [attribute |-> 0, expression |-> 0, group |-> 0]
Literal(k, allow) == LitTok(k, allow, Br0)

\* quoted(): returns [end |-> pos or -1 (no quote), err |-> ...]
RECURSIVE QuotedLoop(_, _)
QuotedLoop(k, q) == IF ~Has(k) THEN -1 ELSE IF IsQ(k) /\ TC(k) = q THEN k+1 ELSE QuotedLoop(k+1, q)
Quoted(k) == IF ~IsQ(k) THEN [end |-> -1, err |-> FALSE]
             ELSE LET e == QuotedLoop(k+1, TC(k)) IN IF e = -1 THEN [end |-> -1, err |-> TRUE] ELSE [end |-> e, err |-> FALSE]

\* attribute(): [kind |-> "none"|"attr"|"error", pos, name, value, errpos]
Attribute(k) ==
    LET q == Quoted(k) IN
    IF q.err THEN [kind |-> "error", errk |-> k]
    ELSE IF q.end # -1 THEN [kind |-> "attr", pos |-> q.end, name |-> <<>>, value |-> <<k, q.end>>]
    ELSE LET l == Literal(k, TRUE) IN
         IF l = k THEN [kind |-> "none"]
         ELSE IF IsOp(l, "equal") THEN
                 LET q2 == Quoted(l+1) IN
                 IF q2.err THEN [kind |-> "error", errk |-> l+1]
                 ELSE IF q2.end # -1 THEN [kind |-> "attr", pos |-> q2.end, name |-> <<k, l>>, value |-> <<l+1, q2.end>>]
                 ELSE LET l2 == Literal(l+1, TRUE) IN
                      IF l2 > l+1 THEN [kind |-> "attr", pos |-> l2, name |-> <<k, l>>, value |-> <<l+1, l2>>]
                      ELSE [kind |-> "attr", pos |-> l+1, name |-> <<k, l>>, value |-> <<>>]
              ELSE [kind |-> "attr", pos |-> l, name |-> <<k, l>>, value |-> <<>>]

\* attribute_set(): [kind |-> "none"|"set"|"error", pos, attrs, errk]
RECURSIVE AttrSetLoop(_, _)
AttrSetLoop(k, acc) ==
    IF ~Has(k) THEN [kind |-> "set", pos |-> k, attrs |-> acc]
    ELSE LET a == Attribute(k) IN
         IF a.kind = "error" THEN [kind |-> "error", errk |-> a.errk]
         ELSE IF a.kind = "attr" THEN AttrSetLoop(a.pos, Append(acc, [name |-> a.name, value |-> a.value, sh |-> ""]))
         ELSE IF IsBr(k, "attribute", "close") THEN [kind |-> "set", pos |-> k+1, attrs |-> acc]
         ELSE IF IsWS(k) THEN AttrSetLoop(k+1, acc)
         ELSE [kind |-> "error", errk |-> k]
AttrSet(k) == IF IsBr(k, "attribute", "open") THEN AttrSetLoop(k+1, <<>>) ELSE [kind |-> "none"]

\* short_attribute (non-jsx): [kind, pos, attr]
RECURSIVE SkipOps(_, _)
SkipOps(k, ty) == IF IsOp(k, ty) THEN SkipOps(k+1, ty) ELSE k
ShortAttr(k, ty) ==
    IF ~IsOp(k, ty) THEN [kind |-> "none"]
    ELSE LET k2 == SkipOps(k, ty)
             l == Literal(k2, FALSE)
         IN [kind |-> "attr", pos |-> l, attr |-> [name |-> <<>>, value |-> (IF l > k2 THEN <<k2, l>> ELSE <<>>), sh |-> ty \o (IF k2 > k+1 THEN "*" ELSE "")]]

RECURSIVE ElemName(_)
ElemName(k) == IF IsElemNameTok(k) THEN ElemName(k+1) ELSE k

\* element(): [kind |-> "none"|"elem"|"error", pos, el, errk]
EmptyEl == [name |-> <<>>, hasname |-> FALSE, attrs |-> <<>>, hasattrs |-> FALSE, value |-> <<>>, hasvalue |-> FALSE, rep |-> <<>>, sc |-> FALSE]
IsEmptyEl(el) == ~el.hasname /\ ~el.hasvalue /\ ~el.hasattrs
RECURSIVE ElemLoop(_, _)
ElemLoop(k, el) ==
    IF ~Has(k) THEN [kind |-> "elem", pos |-> k, el |-> el]
    ELSE IF el.rep = <<>> /\ ~IsEmptyEl(el) /\ IsRep(k) THEN ElemLoop(k+1, [el EXCEPT !.rep = <<k>>])
    ELSE IF ~el.hasvalue /\ Text(k) # -1 THEN ElemLoop(Text(k), [el EXCEPT !.hasvalue = TRUE, !.value = GetText(k, Text(k))])
    ELSE LET a1 == ShortAttr(k, "id")
             a2 == ShortAttr(k, "class")
             a3 == AttrSet(k)
         IN IF a1.kind = "attr" THEN ElemLoop(a1.pos, [el EXCEPT !.hasattrs = TRUE, !.attrs = Append(@, a1.attr)])
            ELSE IF a2.kind = "attr" THEN ElemLoop(a2.pos, [el EXCEPT !.hasattrs = TRUE, !.attrs = Append(@, a2.attr)])
            ELSE IF a3.kind = "error" THEN [kind |-> "error", errk |-> a3.errk]
            ELSE IF a3.kind = "set" THEN ElemLoop(a3.pos, [el EXCEPT !.hasattrs = TRUE, !.attrs = @ \o a3.attrs])
            ELSE IF ~IsEmptyEl(el) /\ IsOp(k, "close")
                 THEN (IF el.rep = <<>> /\ IsRep(k+1) THEN [kind |-> "elem", pos |-> k+2, el |-> [el EXCEPT !.sc = TRUE, !.rep = <<k+1>>]]
                       ELSE [kind |-> "elem", pos |-> k+1, el |-> [el EXCEPT !.sc = TRUE]])
                 ELSE [kind |-> "elem", pos |-> k, el |-> el]
Element(k) == LET n == ElemName(k)
                  el0 == IF n > k THEN [EmptyEl EXCEPT !.hasname = TRUE, !.name = <<k, n>>] ELSE EmptyEl
                  r == ElemLoop(n, el0)
              IN IF r.kind = "error" THEN r
                 ELSE IF IsEmptyEl(r.el) THEN [kind |-> "none"] ELSE r

\* statements(): flat node table; returns [kind |-> "ok"|"error", pos, nodes, errk]
\* node: [parent, kind "e"|"g", el (for e), rep (for g)]
RECURSIVE Stmts(_, _, _, _, _)
ClimbRun(k) == SkipOps(k, "climb")
RECURSIVE PopN(_, _, _)
PopN(ctx, stack, n) == IF n = 0 \/ stack = <<>> THEN [ctx |-> ctx, stack |-> stack]
                       ELSE PopN(stack[Len(stack)], SubSeq(stack, 1, Len(stack)-1), n-1)
After(k, nodes, ctx, stack, node, self) ==
    \* operator handling after `node` was appended
    IF IsOp(k, "child") THEN Stmts(k+1, nodes, node, Append(stack, ctx), self)
    ELSE IF IsOp(k, "sibling") THEN Stmts(k+1, nodes, ctx, stack, self)
    ELSE IF IsOp(k, "climb") THEN LET e == ClimbRun(k) p == PopN(ctx, stack, e - k) IN Stmts(e, nodes, p.ctx, p.stack, self)
    ELSE Stmts(k, nodes, ctx, stack, self)
Stmts(k, nodes, ctx, stack, self) ==
    IF ~Has(k) THEN [kind |-> "ok", pos |-> k, nodes |-> nodes]
    ELSE LET e == Element(k) IN
         IF e.kind = "error" THEN [kind |-> "error", errk |-> e.errk]
         ELSE IF e.kind = "elem" THEN
                 LET nodes2 == Append(nodes, [parent |-> ctx, kind |-> "e", el |-> e.el, rep |-> <<>>])
                 IN After(e.pos, nodes2, ctx, stack, Len(nodes2), self)
         ELSE IF IsBr(k, "group", "open") THEN
                 LET gid == Len(nodes) + 1
                     nodes2 == Append(nodes, [parent |-> ctx, kind |-> "g", el |-> EmptyEl, rep |-> <<>>])
                     inner == Stmts(k+1, nodes2, gid, <<>>, gid)
                 IN IF inner.kind = "error" THEN inner
                    ELSE LET k2 == inner.pos          \* token = scanner.next()
                             closed == IsBr(k2, "group", "close")
                             k3 == k2 + 1
                             hasrep == closed /\ IsRep(k3)
                             nodes3 == IF hasrep THEN [inner.nodes EXCEPT ![gid].rep = <<k3>>] ELSE inner.nodes
                             k4 == IF hasrep THEN k3 + 1 ELSE k3
                         IN After(k4, nodes3, ctx, stack, gid, self)
         ELSE [kind |-> "ok", pos |-> k, nodes |-> nodes]

ParsedCalc ==                          \* parse(tokenize(s)) given tokres
          IF Result.err # -1 THEN [kind |-> "scanerr", pos |-> Result.err]
          ELSE LET r == Stmts(0, <<>>, 0, <<>>, 0) IN
               IF r.kind = "error" THEN [kind |-> "tokerr", pos |-> PErr(r.errk).err]
               ELSE IF Has(r.pos) THEN [kind |-> "tokerr", pos |-> Tk(r.pos).s]
               ELSE [kind |-> "ok", nodes |-> r.nodes]
Parsed == parsed
InitSyntax == s = "" /\ tokres = [toks |-> <<>>, err |-> -1] /\ parsed = [kind |-> "ok", nodes |-> <<>>] /\ phase = 2
Ready == phase = 2
SetInput(str) == phase = 2 /\ s' = str /\ phase' = 0 /\ UNCHANGED <<tokres, parsed>>
Tokenize == phase = 0 /\ tokres' = TokCalc /\ phase' = 1 /\ UNCHANGED <<s, parsed>>
Parse == phase = 1 /\ parsed' = ParsedCalc /\ phase' = 2 /\ UNCHANGED <<s, tokres>>

(* projection used for the comparison with the real parser: per node parent, kind, token spans of name / value / attributes *)
SpanOf(pr) == IF pr = <<>> THEN <<>> ELSE <<Tk(pr[1]).s, Tk(pr[2] - 1).e>>
OutAttr(a) == [name |-> IF a.sh # "" THEN <<>> ELSE SpanOf(a.name), value |-> SpanOf(a.value), sh |-> a.sh]
OutNode(n) == IF n.kind = "g" THEN [p |-> n.parent, k |-> "g", rep |-> IF n.rep = <<>> THEN -1 ELSE Tk(n.rep[1]).s,
                                    name |-> <<>>, hn |-> FALSE, hv |-> FALSE, ha |-> FALSE, value |-> <<>>, sc |-> FALSE, attrs |-> <<>>]
              ELSE [p |-> n.parent, k |-> "e", rep |-> IF n.el.rep = <<>> THEN -1 ELSE Tk(n.el.rep[1]).s,
                    name |-> SpanOf(n.el.name), hn |-> n.el.hasname, hv |-> n.el.hasvalue, ha |-> n.el.hasattrs,
                    value |-> IF n.el.value = <<>> \/ n.el.value[2] <= n.el.value[1] THEN <<>> ELSE SpanOf(n.el.value), sc |-> n.el.sc,
                    attrs |-> [i \in 1..Len(n.el.attrs) |-> OutAttr(n.el.attrs[i])]]
TokensOut == [k \in 1..Len(Result.toks) |-> <<Result.toks[k].t, Result.toks[k].s, Result.toks[k].e>>]
SyntaxOut == LET pr == Parsed IN
             [toks |-> TokensOut, terr |-> Result.err, kind |-> pr.kind, pos |-> IF pr.kind = "ok" THEN -1 ELSE pr.pos,
              nodes |-> IF pr.kind = "ok" THEN [i \in 1..Len(pr.nodes) |-> OutNode(pr.nodes[i])] ELSE <<>>]
\* the tokenizer machine itself satisfies the tiling property (C18) on every string
TilingInv == LET r == Result IN
             IF r.err # -1 THEN r.err >= 0 /\ r.err <= N
             ELSE /\ (r.toks # <<>> => r.toks[1].s = 0 /\ r.toks[Len(r.toks)].e = N)
                  /\ \A k \in 1..Len(r.toks) : r.toks[k].s < r.toks[k].e
                  /\ \A k \in 1..Len(r.toks) - 1 : r.toks[k].e = r.toks[k + 1].s
=============================================================================
