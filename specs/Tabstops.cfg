SPECIFICATION Spec
INVARIANT NumberingInv
INVARIANT Dump
CHECK_DEADLOCK FALSE
