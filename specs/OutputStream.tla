---------------------------- MODULE OutputStream ----------------------------
(* C13 - emmet.output_stream.OutputStream: the position bookkeeping that is  *)
(* handed to the user's output.text / output.field callbacks.                *)
(*                                                                           *)
(* The stream state is [offset, line, column]; a callback is invoked with    *)
(* the state *before* its text is appended.  Two pure operators describe     *)
(* the only two kinds of step (shared with Trace_OutputStream.tla):          *)
(*    AfterPush(st, returned)          ordinary text / field                 *)
(*    AfterNewline(st, returned, base) the newline + baseIndent push         *)
(* The design model below drives them with arbitrary small pushes and checks *)
(* the bookkeeping against positions recomputed from the final string only.  *)
EXTENDS Common

\* a line break is what the library's split_lines() splits at: CR LF, CR or LF - wherever it stands in a pushed string (the newline
\* string of the options, a text, a placeholder, what a callback returned)
RECURSIVE CountBr(_, _), LastBrEnd(_, _)
CountBr(str, i) == IF i > Len(str) THEN 0
                   ELSE IF At(str, i) = "\r" /\ At(str, i + 1) = "\n" THEN 1 + CountBr(str, i + 2)
                   ELSE IF At(str, i) \in {"\r", "\n"} THEN 1 + CountBr(str, i + 1)
                   ELSE CountBr(str, i + 1)
LastBrEnd(str, i) == IF i < 1 THEN 0 ELSE IF At(str, i) \in {"\r", "\n"} THEN i ELSE LastBrEnd(str, i - 1)
AfterPush(st, txt) == LET k == CountBr(txt, 1) IN
                      [offset |-> st.offset + Len(txt), line |-> st.line + k,
                       column |-> IF k = 0 THEN st.column + Len(txt) ELSE Len(txt) - LastBrEnd(txt, Len(txt))]
AfterNewline(st, txt, base) == AfterPush(st, txt)          \* line and column follow from the string that is written
Start == [offset |-> 0, line |-> 0, column |-> 0]

(* positions recomputed from a string alone: number of line breaks before the offset and the distance to the end of the last one *)
LineOf(str, nl, off) == CountBr(SubSeq(str, 1, off), 1)
ColumnOf(str, nl, off) == off - LastBrEnd(str, off)

CONSTANTS MaxLen,                 \* bound on the length of the value
          MaxCalls,               \* bound on the number of recorded invocations (history variable)
          MultiLinePlaceholder    \* TRUE: also push a field whose placeholder contains a line break

VARIABLES value, st, nl, base, calls
vars == <<value, st, nl, base, calls>>

Init == /\ value = "" /\ st = Start /\ calls = <<>>
        /\ nl \in {"\n", "\r\n"} /\ base \in {"", "  "}

Record(t) == calls' = Append(calls, [txt |-> t, off |-> st.offset, line |-> st.line, col |-> st.column])
Texts == {"a", "bc", ""}
Fields == {"", "ph"} \cup (IF MultiLinePlaceholder THEN {"m\nn"} ELSE {})

Push(t) == /\ Len(value) + Len(t) <= MaxLen /\ Len(calls) < MaxCalls
           /\ value' = value \o t /\ st' = AfterPush(st, t) /\ Record(t) /\ UNCHANGED <<nl, base>>
PushNewline == /\ Len(value) + Len(nl \o base) <= MaxLen /\ Len(calls) < MaxCalls
               /\ value' = value \o nl \o base /\ st' = AfterNewline(st, nl \o base, base)
               /\ Record(nl \o base) /\ UNCHANGED <<nl, base>>
Next == (\E t \in Texts \cup Fields : Push(t)) \/ PushNewline
Spec == Init /\ [][Next]_vars

Bookkeeping == /\ st.offset = Len(value)
               /\ st.line = LineOf(value, nl, Len(value))
               /\ st.column = ColumnOf(value, nl, Len(value))
CallbackExact == \A i \in 1..Len(calls) :
                   LET c == calls[i] IN
                   /\ c.off + Len(c.txt) <= Len(value)
                   /\ SubSeq(value, c.off + 1, c.off + Len(c.txt)) = c.txt
                   /\ c.line = LineOf(value, nl, c.off)
                   /\ c.col = ColumnOf(value, nl, c.off)
=============================================================================
