SPECIFICATION Spec
INVARIANT DepthBound
INVARIANT AliasIsDefinition
INVARIANT Dump
CHECK_DEADLOCK FALSE
