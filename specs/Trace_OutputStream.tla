------------------------- MODULE Trace_OutputStream -------------------------
(* C13 - validation of recorded callback traces of the real code against the *)
(* OutputStream specification.  One trace = one expand() call; one event =   *)
(* one invocation of output.text (k = "t") or output.field (k = "f") with    *)
(* the argument, the reported offset/line/column and the returned string.    *)
(* Every event must be explained by the spec step of its kind from the state *)
(* the spec computed from the earlier events, and - independently - by the   *)
(* positions recomputed from the final result alone.                         *)
EXTENDS Common, Json, IOUtils

OS == INSTANCE OutputStream WITH MaxLen <- 0, MaxCalls <- 0, MultiLinePlaceholder <- FALSE,
                                 value <- "", st <- [offset |-> 0, line |-> 0, column |-> 0], nl <- "", base <- "", calls <- <<>>

Traces == ndJsonDeserialize(IOEnv.TRACE_FILE)

VARIABLES tid, l, st, ok
vars == <<tid, l, st, ok>>

Tr == Traces[tid]
Ev == Tr.events
Final == Tr.final

Init == tid \in 1..Len(Traces) /\ l = 1 /\ st = OS!Start /\ ok = "ok"

\* the newline push is recognised by its argument: newline string followed by the base indent
IsNewline(e) == e.k = "t" /\ e.arg = Tr.nl \o Tr.base

\* Lines of the final result as the library itself splits lines (split_lines(): CR LF, CR or LF).  For the usual newline strings
\* this is the number of newline strings; it differs exactly when a line break reached the result without going through the
\* newline push (which is what keeps line and column exact).
Usual == Tr.nl \in {"\n", "\r\n", "\r"}
LineOfResult(off) == OS!LineOf(Final, Tr.nl, off)
ColumnOfResult(off) == OS!ColumnOf(Final, Tr.nl, off)

Judge(e) == IF e.off # st.offset THEN "offset"
            ELSE IF e.line # st.line THEN "line"
            ELSE IF e.col # st.column THEN "column"
            ELSE IF e.off + Len(e.ret) > Len(Final) THEN "placement"
            ELSE IF e.ret # "" /\ SubSeq(Final, e.off + 1, e.off + Len(e.ret)) # e.ret THEN "placement"
            ELSE IF e.line # LineOfResult(e.off) THEN "line-vs-result"
            ELSE IF e.col # ColumnOfResult(e.off) THEN "column-vs-result"
            ELSE "ok"

Push == /\ l <= Len(Ev) /\ ok = "ok" /\ ~IsNewline(Ev[l])
        /\ ok' = Judge(Ev[l])
        /\ st' = OS!AfterPush(st, Ev[l].ret)
        /\ l' = l + 1 /\ UNCHANGED tid
PushNewline == /\ l <= Len(Ev) /\ ok = "ok" /\ IsNewline(Ev[l])
               /\ ok' = Judge(Ev[l])
               /\ st' = OS!AfterNewline(st, Ev[l].ret, Tr.base)
               /\ l' = l + 1 /\ UNCHANGED tid
Next == Push \/ PushNewline
Spec == Init /\ [][Next]_vars

Verdict == /\ (ok # "ok" => PrintT(<<"REJECT", Tr.tid, l - 1, ok>>))
           /\ ((ok = "ok" /\ l = Len(Ev) + 1) =>
                 IF st.offset = Len(Final) THEN PrintT(<<"ACCEPT", Tr.tid>>)
                 ELSE PrintT(<<"REJECT", Tr.tid, 0, "final-length">>))
=============================================================================
