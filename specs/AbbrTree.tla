------------------------------ MODULE AbbrTree ------------------------------
(* C01 - the element tree denoted by  >  +  ^  ( )  *N  and implicit names.  *)
(*                                                                           *)
(* Generator: online token generator of the documented grammar (operator     *)
(*   after item, item after operator, ")" only with an open group; ">" right *)
(*   after a group or a self-closed element is not generated - undocumented).*)
(* Machine  : the parser's statements()/group() discipline - one frame       *)
(*   [ctx, stack] per open statements() activation: ">" pushes ctx and makes *)
(*   the new node the context, "^" pops if the stack of THIS activation is   *)
(*   not empty, "(" opens an activation, ")" closes it - followed by the     *)
(*   converter's unrolling (groups are flattened, repeated items copied).    *)
(* Contract : depth numbers only, no stack and no parent pointers:           *)
(*   first item = base; ">" +1; "+" same; "^" -1 but not below the base of   *)
(*   the enclosing group / the abbreviation; inside a group base = depth of  *)
(*   the group.  The subtree of item i is the maximal run of following items *)
(*   with larger depth; a group spans to its ")".                            *)
(* TLC checks machine listing = contract listing (TreeInv), that each        *)
(* written element occurs exactly once per repetition (OncePerRepetition)    *)
(* and in written order (DocOrder); implicit names are resolved on the       *)
(* listing by the documented table.                                          *)
EXTENDS Common, Json

CONSTANTS MaxTok,       \* bound on generator tokens
          Names,        \* element names
          Implicits,    \* nameless elements, written e.g. ".c", "#i", "[t]"
          Voids,        \* self-closed elements, written e.g. "br/"
          Reps,         \* repeat counts
          MaxGroups,    \* max nesting of groups
          MaxReps       \* max number of repeaters in one abbreviation (the listing grows exponentially with nested ones)

VARIABLES abbr, ntok, nodes, frames, cframes, depths, expect, last
vars == <<abbr, ntok, nodes, frames, cframes, depths, expect, last>>
(* nodes[i]  = [parent, kind ("e" | "g"), name, rep, gend, void]   machine side: creation order = written order
   frames    = stack of [ctx, stack]                               machine side
   cframes   = stack of [base, cur]                                contract side
   depths[i] = contract depth of item i *)

Top(s) == s[Len(s)]
SetTop(s, v) == [s EXCEPT ![Len(s)] = v]
Pop(s) == SubSeq(s, 1, Len(s) - 1)

Init == /\ abbr = "" /\ ntok = 0 /\ nodes = <<>> /\ depths = <<>>
        /\ frames = << [ctx |-> 0, stack |-> <<>>] >>
        /\ cframes = << [base |-> 0, cur |-> 0] >>
        /\ expect = "item" /\ last = 0

Tok(t) == abbr' = abbr \o t /\ ntok' = ntok + 1

Item(text, nm, void) ==
    /\ expect \in {"item", "climbed"} /\ ntok < MaxTok
    /\ Tok(text)
    /\ nodes' = Append(nodes, [parent |-> Top(frames).ctx, kind |-> "e", name |-> nm, rep |-> 1, gend |-> 0, void |-> void])
    /\ depths' = Append(depths, Top(cframes).cur)
    /\ last' = Len(nodes) + 1
    /\ expect' = "op"
    /\ UNCHANGED <<frames, cframes>>

Child == /\ expect = "op" /\ last # 0 /\ nodes[last].kind = "e" /\ ~nodes[last].void /\ ntok < MaxTok - 1
         /\ Tok(">")
         /\ frames' = SetTop(frames, [ctx |-> last, stack |-> Append(Top(frames).stack, Top(frames).ctx)])
         /\ cframes' = SetTop(cframes, [Top(cframes) EXCEPT !.cur = @ + 1])
         /\ expect' = "item"
         /\ UNCHANGED <<nodes, depths, last>>

Sibling == /\ expect = "op" /\ ntok < MaxTok - 1
           /\ Tok("+")
           /\ expect' = "item"
           /\ UNCHANGED <<nodes, depths, frames, cframes, last>>

Climb == /\ expect \in {"op", "climbed"} /\ ntok < MaxTok - 1
         /\ Tok("^")
         /\ frames' = IF Top(frames).stack = <<>> THEN frames       \* climbing stops at the top of this activation
                      ELSE SetTop(frames, [ctx |-> Top(Top(frames).stack), stack |-> Pop(Top(frames).stack)])
         /\ cframes' = SetTop(cframes, [Top(cframes) EXCEPT !.cur = IF @ > Top(cframes).base THEN @ - 1 ELSE @])
         /\ expect' = "climbed"
         /\ UNCHANGED <<nodes, depths, last>>

GroupOpen == /\ expect \in {"item", "climbed"} /\ ntok < MaxTok - 2 /\ Len(frames) <= MaxGroups
             /\ Tok("(")
             /\ nodes' = Append(nodes, [parent |-> Top(frames).ctx, kind |-> "g", name |-> "", rep |-> 1, gend |-> 0, void |-> FALSE])
             /\ depths' = Append(depths, Top(cframes).cur)
             /\ frames' = Append(frames, [ctx |-> Len(nodes) + 1, stack |-> <<>>])
             /\ cframes' = Append(cframes, [base |-> Top(cframes).cur, cur |-> Top(cframes).cur])
             /\ expect' = "item"
             /\ last' = 0

OpenGroups == {i \in 1..Len(nodes) : nodes[i].kind = "g" /\ nodes[i].gend = 0}
GroupClose == /\ expect \in {"op", "climbed"} /\ Len(frames) > 1
              /\ Tok(")")
              /\ LET gid == CHOOSE i \in OpenGroups : \A j \in OpenGroups : j <= i      \* innermost open group
                 IN /\ nodes' = [nodes EXCEPT ![gid].gend = Len(nodes)]
                    /\ last' = gid
              /\ frames' = Pop(frames)
              /\ cframes' = Pop(cframes)
              /\ expect' = "op"
              /\ UNCHANGED depths

Repeat == /\ expect = "op" /\ last # 0 /\ nodes[last].rep = 1
          /\ Cardinality({i \in 1..Len(nodes) : nodes[i].rep > 1}) < MaxReps
          /\ \E n \in Reps : /\ Tok("*" \o ToString(n))
                             /\ nodes' = [nodes EXCEPT ![last].rep = n]
          /\ UNCHANGED <<depths, frames, cframes, last, expect>>

Next == \/ \E nm \in Names : Item(nm, nm, FALSE)
        \/ \E im \in Implicits : Item(im, "?", FALSE)
        \/ \E v \in Voids : Item(v \o "/", v, TRUE)
        \/ Child \/ Sibling \/ Climb \/ GroupOpen \/ GroupClose \/ Repeat
Spec == Init /\ [][Next]_vars

Complete == expect \in {"op", "climbed"} /\ Len(frames) = 1 /\ Len(nodes) > 0

(* ------------------------------------------------- machine side: unrolling *)
Kids(n) == SelectSeq([i \in 1..Len(nodes) |-> i], LAMBDA i : nodes[i].parent = n)
RECURSIVE MList(_, _), MKids(_, _, _)
MList(n, d) == LET k == Kids(n) IN
               IF nodes[n].kind = "e"
               THEN Times(<<[d |-> d, n |-> nodes[n].name, id |-> n]>> \o MKids(k, 1, d + 1), nodes[n].rep)
               ELSE Times(MKids(k, 1, d), nodes[n].rep)
MKids(k, i, d) == IF i > Len(k) THEN <<>> ELSE MList(k[i], d) \o MKids(k, i + 1, d)
MachineListing == MKids(Kids(0), 1, 0)

(* -------------------------------------- contract side: depth numbers only *)
RECURSIVE SpanE(_, _), CList(_, _)
SpanE(i, j) == IF j + 1 <= Len(nodes) /\ depths[j + 1] > depths[i] THEN SpanE(i, j + 1) ELSE j
Span(i) == IF nodes[i].kind = "g" THEN nodes[i].gend ELSE SpanE(i, i)
CList(lo, hi) == IF lo > hi THEN <<>>
                 ELSE LET sp == Span(lo)
                          one == IF nodes[lo].kind = "e"
                                 THEN <<[d |-> depths[lo], n |-> nodes[lo].name, id |-> lo]>> \o CList(lo + 1, sp)
                                 ELSE CList(lo + 1, sp)
                      IN Times(one, nodes[lo].rep) \o CList(sp + 1, hi)
ContractListing == CList(1, Len(nodes))

(* ------------------------------------------------------- implicit names *)
InlineNames == {"a", "abbr", "acronym", "applet", "b", "basefont", "bdo", "big", "br", "button", "cite", "code", "del", "dfn",
                "em", "font", "i", "iframe", "img", "input", "ins", "kbd", "label", "map", "object", "q", "s", "samp", "select",
                "small", "span", "strike", "strong", "sub", "sup", "textarea", "tt", "u", "var"}
\* element names are not case sensitive: the table is consulted with the lower-cased parent name
LowerName(p) == CASE p = "UL" -> "ul" [] p = "OL" -> "ol" [] p = "Table" -> "table" [] p = "TR" -> "tr" [] p = "P" -> "p" [] p = "EM" -> "em"
              [] p = "SELECT" -> "select" [] p = "DIV" -> "div" [] p = "Span" -> "span" [] p = "TBody" -> "tbody" [] OTHER -> p
ImplNameL(p) == IF p \in {"ul", "ol"} THEN "li"
               ELSE IF p \in {"table", "tbody", "thead", "tfoot"} THEN "tr"
               ELSE IF p = "tr" THEN "td"
               ELSE IF p \in {"select", "optgroup"} THEN "option"
               ELSE IF p = "p" \/ p \in InlineNames THEN "span"
               ELSE "div"
ImplName(p) == ImplNameL(LowerName(p))
\* name of the closest listed element one level up (the listing is in pre-order, so it is the last one seen)
ParentName(done, d) == IF d = 0 THEN ""
                       ELSE LET idx == {j \in 1..Len(done) : done[j].d = d - 1} IN
                            done[CHOOSE j \in idx : \A k \in idx : k <= j].n
RECURSIVE Resolve(_, _)
Resolve(done, rest) == IF rest = <<>> THEN done
                       ELSE LET h == Head(rest)
                                nm == IF h.n = "?" THEN ImplName(ParentName(done, h.d)) ELSE h.n
                            IN Resolve(Append(done, [d |-> h.d, n |-> nm, id |-> h.id]), Tail(rest))

(* ------------------------------------------------------------ properties *)
TreeInv == Complete => MachineListing = ContractListing

RECURSIVE Mult(_)
Mult(i) == IF i = 0 THEN 1 ELSE nodes[i].rep * Mult(nodes[i].parent)
Count(lst, i) == Cardinality({j \in 1..Len(lst) : lst[j].id = i})
OncePerRepetition == Complete => \A i \in 1..Len(nodes) : nodes[i].kind = "e" => Count(ContractListing, i) = Mult(i)

FirstOcc(lst, i) == CHOOSE j \in 1..Len(lst) : lst[j].id = i /\ \A k \in 1..Len(lst) : lst[k].id = i => j <= k
Elems == {i \in 1..Len(nodes) : nodes[i].kind = "e"}
DocOrder == Complete => \A i, j \in Elems : i < j => FirstOcc(ContractListing, i) < FirstOcc(ContractListing, j)

\* depth contract: every listed depth is the depth of its first occurrence, children are exactly one deeper than their parent
DepthStep == Complete => \A j \in 2..Len(ContractListing) : ContractListing[j].d <= ContractListing[j - 1].d + 1

NameDepth(lst) == [j \in 1..Len(lst) |-> <<lst[j].d, lst[j].n>>]
VoidNames == {nodes[i].name : i \in {j \in 1..Len(nodes) : nodes[j].void}}
RECURSIVE SetToSeq(_)
SetToSeq(S) == IF S = {} THEN <<>> ELSE LET x == CHOOSE y \in S : TRUE IN <<x>> \o SetToSeq(S \ {x})
Dump == Complete => PrintT(<<"VEC", ToJson([abbr |-> abbr, out |-> NameDepth(Resolve(<<>>, ContractListing)),
                                             voids |-> SetToSeq(VoidNames), ntok |-> ntok])>>)
=============================================================================
