SPECIFICATION Spec
INVARIANT TruthInv
INVARIANT ItemInv
INVARIANT PropsInv
INVARIANT DumpActions
CHECK_DEADLOCK FALSE
