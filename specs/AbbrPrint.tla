------------------------------ MODULE AbbrPrint ------------------------------
(* The back half of expand() for markup, on the node tree of AbbrConvert.tla, *)
(* for names that are not snippet keys, default options and                  *)
(* output.format = false:                                                    *)
(*   implicit_tag()     a node without name but with attributes is named by  *)
(*                      ELEMENT_MAP[lower-cased name of its parent], else    *)
(*                      span inside an inline element, else div              *)
(*   merge_attributes() one pass over the attribute list: first position     *)
(*                      kept, class values joined by one blank, any other    *)
(*                      repeated name takes the later declaration (value,    *)
(*                      value type; boolean / implied marks accumulate);     *)
(*                      attributes without name are left alone               *)
(*   HTML formatter     <name attrs>text children</name>; an implied         *)
(*                      attribute without value is dropped, a boolean one    *)
(*                      without value prints name="name", an empty value     *)
(*                      prints name="" (the caret), expressions print in     *)
(*                      braces; a self-closed element without content prints *)
(*                      its open tag only (with the self-closing token of    *)
(*                      the style); children of a node whose text            *)
(*                      holds a field are spliced into the first field; a    *)
(*                      field prints its placeholder                         *)
(* Printed == the string expand(s, {'options': {'output.format': False,      *)
(* 'output.selfClosingStyle': SelfClosingStyle}}) returns.                   *)
EXTENDS AbbrConvert

CONSTANT SelfClosingStyle          \* output.selfClosingStyle: "html" | "xhtml" | "xml"
SelfCloseToken == IF SelfClosingStyle = "xhtml" THEN " /" ELSE IF SelfClosingStyle = "xml" THEN "/" ELSE ""

UpperLetters == <<"A","B","C","D","E","F","G","H","I","J","K","L","M","N","O","P","Q","R","S","T","U","V","W","X","Y","Z">>
LowerLetters == <<"a","b","c","d","e","f","g","h","i","j","k","l","m","n","o","p","q","r","s","t","u","v","w","x","y","z">>
LowerCh(c) == IF \E i \in 1..26 : UpperLetters[i] = c THEN LowerLetters[CHOOSE i \in 1..26 : UpperLetters[i] = c] ELSE c
RECURSIVE LowerS(_)
LowerS(x) == IF x = "" THEN "" ELSE LowerCh(SubSeq(x, 1, 1)) \o LowerS(Tail(x))

ElementMap(p) == CASE p = "p" -> "span" [] p \in {"ul", "ol"} -> "li" [] p \in {"table", "tbody", "thead", "tfoot"} -> "tr"
                   [] p = "tr" -> "td" [] p = "colgroup" -> "col" [] p \in {"select", "optgroup"} -> "option"
                   [] p \in {"audio", "video"} -> "source" [] p = "object" -> "param" [] p = "map" -> "area" [] OTHER -> ""
InlineElements == {"a", "abbr", "acronym", "applet", "b", "basefont", "bdo", "big", "br", "button", "cite", "code", "del", "dfn",
                   "em", "font", "i", "iframe", "img", "input", "ins", "kbd", "label", "map", "object", "q", "s", "samp", "select",
                   "small", "span", "strike", "strong", "sub", "sup", "textarea", "tt", "u", "var"}
BooleanAttributes == {"contenteditable", "seamless", "async", "autofocus", "autoplay", "checked", "controls", "defer", "disabled",
                      "formnovalidate", "hidden", "ismap", "loop", "multiple", "muted", "novalidate", "readonly", "required", "reversed",
                      "selected", "typemustmatch"}

Named(a) == a.name # NONE /\ a.name # ""
Truthy(a) == a.hasval /\ a.value # <<>>            \* a non-empty token list

(* ------------------------------------------------------- merge_attributes() *)
FirstNamed(acc, nm) == IF \E i \in 1..Len(acc) : Named(acc[i]) /\ acc[i].name = nm
                       THEN CHOOSE i \in 1..Len(acc) : Named(acc[i]) /\ acc[i].name = nm /\ \A j \in 1..(i - 1) : ~(Named(acc[j]) /\ acc[j].name = nm)
                       ELSE 0
MergeValue(prev, next) ==            \* merge_value(prev.value, next.value, " ")
    IF prev.hasval /\ next.hasval
    THEN [prev EXCEPT !.value = (IF prev.value # <<>> THEN Append(prev.value, SItem(" ")) ELSE prev.value) \o next.value]
    ELSE IF Truthy(prev) THEN prev ELSE [prev EXCEPT !.hasval = next.hasval, !.value = next.value]
MergeDecl(dest, src) ==              \* merge_declarations(), output.reverseAttributes off
    [dest EXCEPT !.hasval = src.hasval, !.value = src.value, !.impl = dest.impl \/ src.impl, !.bool = dest.bool \/ src.bool,
                 !.vt = IF dest.vt # "expression" THEN src.vt ELSE dest.vt]
RECURSIVE MergeA(_, _)
MergeA(todo, acc) ==
    IF todo = <<>> THEN acc
    ELSE LET a == Head(todo) i == IF Named(a) THEN FirstNamed(acc, a.name) ELSE 0 IN
         IF i = 0 THEN MergeA(Tail(todo), Append(acc, a))
         ELSE MergeA(Tail(todo), [acc EXCEPT ![i] = IF a.name = "class" THEN MergeValue(acc[i], a) ELSE MergeDecl(acc[i], a)])

(* ----------------------------------------------------------- the formatter *)
RECURSIVE Tokens(_)
Tokens(vl) == IF vl = <<>> THEN "" ELSE Head(vl).s \o Tokens(Tail(vl))        \* a string as it is, a field as its placeholder
PrintAttr(a) ==
    IF ~Named(a) THEN ""
    ELSE IF a.impl /\ a.vt = "raw" /\ ~Truthy(a) THEN ""                        \* should_output_attribute()
    ELSE LET lq == IF a.vt = "expression" THEN "{" ELSE "\""
             rq == IF a.vt = "expression" THEN "}" ELSE "\""
             isBool == a.bool \/ LowerS(a.name) \in BooleanAttributes
             val == IF Truthy(a) THEN Tokens(a.value) ELSE IF isBool THEN a.name ELSE ""     \* compactBoolean off; the caret prints nothing
         IN " " \o a.name \o "=" \o lq \o val \o rq
RECURSIVE PrintAttrs(_)
PrintAttrs(as) == IF as = <<>> THEN "" ELSE PrintAttr(Head(as)) \o PrintAttrs(Tail(as))
FirstField(vl) == IF \E i \in 1..Len(vl) : vl[i].f THEN CHOOSE i \in 1..Len(vl) : vl[i].f /\ \A j \in 1..(i - 1) : ~vl[j].f ELSE 0

RECURSIVE PrintNodes(_, _), PrintNode(_, _)
PrintNodes(items, parent) == IF items = <<>> THEN "" ELSE PrintNode(Head(items), parent) \o PrintNodes(Tail(items), parent)
\* parent: the (resolved) name of the closest enclosing node, "" at the top level and below a text node
PrintNode(n, parent) ==
    LET hasAttrs == n.hasattrs /\ n.attrs # <<>>
        noName == n.name = NONE \/ n.name = ""
        lp == LowerS(parent)
        name == IF noName /\ hasAttrs
                THEN (IF ElementMap(lp) # "" THEN ElementMap(lp) ELSE IF lp \in InlineElements THEN "span" ELSE "div")
                ELSE IF noName THEN "" ELSE n.name
        attrs == IF hasAttrs THEN MergeA(n.attrs, <<>>) ELSE <<>>
        valTruthy == n.hasval /\ n.value # <<>>
        kids == PrintNodes(n.kids, name)
        ff == IF valTruthy /\ n.kids # <<>> THEN FirstField(n.value) ELSE 0
        body == IF ff # 0 THEN Tokens(SubSeq(n.value, 1, ff - 1)) \o kids \o Tokens(SubSeq(n.value, ff + 1, Len(n.value)))   \* push_snippet()
                ELSE (IF valTruthy THEN Tokens(n.value) ELSE "") \o kids
    IN IF name # ""
       THEN "<" \o name \o PrintAttrs(attrs)
            \o (IF n.sc /\ n.kids = <<>> /\ ~valTruthy THEN SelfCloseToken \o ">" ELSE ">" \o body \o "</" \o name \o ">")
       ELSE IF ff # 0 THEN body                       \* a text node
       ELSE IF valTruthy THEN body
       ELSE ""                                        \* a node without name, attributes and text prints nothing (its children neither)
Printed == LET c == Converted IN IF c.kind = "ok" THEN PrintNodes(c.tree, "") ELSE ""
=============================================================================
