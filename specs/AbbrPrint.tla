------------------------------ MODULE AbbrPrint ------------------------------
(* The back half of expand() for markup, on the node tree of AbbrConvert.tla, *)
(* for names that are not snippet keys, default options and                  *)
(* output.format = false:                                                    *)
(*   implicit_tag()     a node without name but with attributes is named by  *)
(*                      ELEMENT_MAP[lower-cased name of its parent], else    *)
(*                      span inside an inline element, else div              *)
(*   merge_attributes() one pass over the attribute list: first position     *)
(*                      kept, class values joined by one blank, any other    *)
(*                      repeated name takes the later declaration (value,    *)
(*                      value type; boolean / implied marks accumulate);     *)
(*                      attributes without name are left alone               *)
(*   HTML formatter     <name attrs>text children</name>; an implied         *)
(*                      attribute without value is dropped, a boolean one    *)
(*                      without value prints name="name", an empty value     *)
(*                      prints name="" (the caret), expressions print in     *)
(*                      braces; a self-closed element without content prints *)
(*                      its open tag only (with the self-closing token of    *)
(*                      the style); children of a node whose text            *)
(*                      holds a field are spliced into the first field; a    *)
(*                      field prints its placeholder                         *)
(*   indent formatter   HAML / Pug / Slim: one line per element (IndentPrinted) *)
(* Printed == the string expand(s, {'options': {'output.format': False,      *)
(* 'output.selfClosingStyle': SelfClosingStyle}}) returns.                   *)
EXTENDS AbbrConvert, HtmlScan

CONSTANT SelfClosingStyle          \* output.selfClosingStyle: "html" | "xhtml" | "xml"
SelfCloseToken == IF SelfClosingStyle = "xhtml" THEN " /" ELSE IF SelfClosingStyle = "xml" THEN "/" ELSE ""

UpperLetters == <<"A","B","C","D","E","F","G","H","I","J","K","L","M","N","O","P","Q","R","S","T","U","V","W","X","Y","Z">>
LowerLetters == <<"a","b","c","d","e","f","g","h","i","j","k","l","m","n","o","p","q","r","s","t","u","v","w","x","y","z">>
LowerCh(c) == IF \E i \in 1..26 : UpperLetters[i] = c THEN LowerLetters[CHOOSE i \in 1..26 : UpperLetters[i] = c] ELSE c
RECURSIVE LowerS(_)
LowerS(x) == IF x = "" THEN "" ELSE LowerCh(SubSeq(x, 1, 1)) \o LowerS(Tail(x))

ElementMap(p) == CASE p = "p" -> "span" [] p \in {"ul", "ol"} -> "li" [] p \in {"table", "tbody", "thead", "tfoot"} -> "tr"
                   [] p = "tr" -> "td" [] p = "colgroup" -> "col" [] p \in {"select", "optgroup"} -> "option"
                   [] p \in {"audio", "video"} -> "source" [] p = "object" -> "param" [] p = "map" -> "area" [] OTHER -> ""
InlineElements == {"a", "abbr", "acronym", "applet", "b", "basefont", "bdo", "big", "br", "button", "cite", "code", "del", "dfn",
                   "em", "font", "i", "iframe", "img", "input", "ins", "kbd", "label", "map", "object", "q", "s", "samp", "select",
                   "small", "span", "strike", "strong", "sub", "sup", "textarea", "tt", "u", "var"}
BooleanAttributes == {"contenteditable", "seamless", "async", "autofocus", "autoplay", "checked", "controls", "defer", "disabled",
                      "formnovalidate", "hidden", "ismap", "loop", "multiple", "muted", "novalidate", "readonly", "required", "reversed",
                      "selected", "typemustmatch"}

Named(a) == a.name # NONE /\ a.name # ""
Truthy(a) == a.hasval /\ a.value # <<>>            \* a non-empty token list

(* ------------------------------------------------------- merge_attributes() *)
FirstNamed(acc, nm) == IF \E i \in 1..Len(acc) : Named(acc[i]) /\ acc[i].name = nm
                       THEN CHOOSE i \in 1..Len(acc) : Named(acc[i]) /\ acc[i].name = nm /\ \A j \in 1..(i - 1) : ~(Named(acc[j]) /\ acc[j].name = nm)
                       ELSE 0
MergeValue(prev, next) ==            \* merge_value(prev.value, next.value, " ")
    IF prev.hasval /\ next.hasval
    THEN [prev EXCEPT !.value = (IF prev.value # <<>> THEN Append(prev.value, SItem(" ")) ELSE prev.value) \o next.value]
    ELSE IF Truthy(prev) THEN prev ELSE [prev EXCEPT !.hasval = next.hasval, !.value = next.value]
MergeDecl(dest, src) ==              \* merge_declarations(), output.reverseAttributes off
    [dest EXCEPT !.hasval = src.hasval, !.value = src.value, !.impl = dest.impl \/ src.impl, !.bool = dest.bool \/ src.bool,
                 !.vt = IF dest.vt # "expression" THEN src.vt ELSE dest.vt]
RECURSIVE MergeA(_, _)
MergeA(todo, acc) ==
    IF todo = <<>> THEN acc
    ELSE LET a == Head(todo) i == IF Named(a) THEN FirstNamed(acc, a.name) ELSE 0 IN
         IF i = 0 THEN MergeA(Tail(todo), Append(acc, a))
         ELSE MergeA(Tail(todo), [acc EXCEPT ![i] = IF a.name = "class" THEN MergeValue(acc[i], a) ELSE MergeDecl(acc[i], a)])

(* ------------------------------------------------ transform(): per node *)
\* append() of merge_value() joins adjacent strings: normalise the item list the same way
RECURSIVE JoinStrings(_)
JoinStrings(vl) == IF Len(vl) < 2 THEN vl
            ELSE IF ~vl[1].f /\ ~vl[2].f THEN JoinStrings(<<SItem(vl[1].s \o vl[2].s)>> \o SubSeq(vl, 3, Len(vl)))
            ELSE <<vl[1]>> \o JoinStrings(Tail(vl))
(* the label addon (markup/addon/label.py, on for every markup abbreviation): a label that holds an input or textarea (the first one
   in document order, found by its written name) loses its empty `for`, that element its empty `id`; empty = no value, or a single
   field without placeholder.  It runs when the label is transformed: the label's attributes are merged, the descendant's are not yet. *)
IsEmptyAttr(a) == ~Truthy(a) \/ (Len(a.value) = 1 /\ a.value[1].f /\ a.value[1].s = "")
DropEmpty(attrs, nm) == SelectSeq(attrs, LAMBDA a : ~(Named(a) /\ a.name = nm /\ IsEmptyAttr(a)))
RECURSIVE FixFirstInput(_)
FixFirstInput(kids) ==
    IF kids = <<>> THEN [k |-> <<>>, found |-> FALSE]
    ELSE LET h == Head(kids) IN
         IF h.name \in {"input", "textarea"}
         THEN [k |-> <<(IF h.hasattrs /\ h.attrs # <<>> THEN [h EXCEPT !.attrs = DropEmpty(@, "id")] ELSE h)>> \o Tail(kids), found |-> TRUE]
         ELSE LET inner == FixFirstInput(h.kids) IN
              IF inner.found THEN [k |-> <<[h EXCEPT !.kids = inner.k]>> \o Tail(kids), found |-> TRUE]
              ELSE LET rest == FixFirstInput(Tail(kids)) IN [k |-> <<h>> \o rest.k, found |-> rest.found]
RECURSIVE TNodes(_, _)
\* parent: the (resolved) name of the closest enclosing node, "" at the top level and below a text node
TNode(n, parent) ==
    LET hasAttrs == n.hasattrs /\ n.attrs # <<>>
        noName == n.name = NONE \/ n.name = ""
        lp == LowerS(parent)
        name == IF noName /\ hasAttrs
                THEN (IF ElementMap(lp) # "" THEN ElementMap(lp) ELSE IF lp \in InlineElements THEN "span" ELSE "div")
                ELSE IF noName THEN "" ELSE n.name
        merged0 == IF hasAttrs THEN MergeA(n.attrs, <<>>) ELSE <<>>
        lab == IF name = "label" THEN FixFirstInput(n.kids) ELSE [k |-> n.kids, found |-> FALSE]
        merged == IF lab.found THEN DropEmpty(merged0, "for") ELSE merged0
    IN [n EXCEPT !.name = name, !.attrs = [i \in 1..Len(merged) |-> [merged[i] EXCEPT !.value = JoinStrings(@)]], !.kids = TNodes(lab.k, name)]
TNodes(items, parent) == IF items = <<>> THEN <<>> ELSE <<TNode(Head(items), parent)>> \o TNodes(Tail(items), parent)
Transformed == LET c == Converted IN IF c.kind = "ok" THEN TNodes(c.tree, "") ELSE <<>>

(* ------------------------------------------------------ the HTML formatter *)
RECURSIVE Tokens(_)
Tokens(vl) == IF vl = <<>> THEN "" ELSE Head(vl).s \o Tokens(Tail(vl))        \* a string as it is, a field as its placeholder
ShouldOutput(a) == ~a.impl \/ a.vt # "raw" \/ Truthy(a)                       \* should_output_attribute()
IsBool(a) == a.bool \/ (a.name # NONE /\ LowerS(a.name) \in BooleanAttributes)
LQ(a) == IF a.vt = "expression" THEN "{" ELSE "\""
RQ(a) == IF a.vt = "expression" THEN "}" ELSE "\""
PrintAttr(a) ==
    IF ~Named(a) \/ ~ShouldOutput(a) THEN ""
    ELSE LET val == IF Truthy(a) THEN Tokens(a.value) ELSE IF IsBool(a) THEN a.name ELSE ""     \* compactBoolean off; the caret prints nothing
         IN " " \o a.name \o "=" \o LQ(a) \o val \o RQ(a)
RECURSIVE PrintAttrs(_)
PrintAttrs(as) == IF as = <<>> THEN "" ELSE PrintAttr(Head(as)) \o PrintAttrs(Tail(as))
FirstField(vl) == IF \E i \in 1..Len(vl) : vl[i].f THEN CHOOSE i \in 1..Len(vl) : vl[i].f /\ \A j \in 1..(i - 1) : ~vl[j].f ELSE 0

RECURSIVE PrintNodes(_), PrintNode(_)
PrintNodes(items) == IF items = <<>> THEN "" ELSE PrintNode(Head(items)) \o PrintNodes(Tail(items))
PrintNode(n) ==
    LET valTruthy == n.hasval /\ n.value # <<>>
        kids == PrintNodes(n.kids)
        ff == IF valTruthy /\ n.kids # <<>> THEN FirstField(n.value) ELSE 0
        body == IF ff # 0 THEN Tokens(SubSeq(n.value, 1, ff - 1)) \o kids \o Tokens(SubSeq(n.value, ff + 1, Len(n.value)))   \* push_snippet()
                ELSE (IF valTruthy THEN Tokens(n.value) ELSE "") \o kids
    IN IF n.name # ""
       THEN "<" \o n.name \o PrintAttrs(n.attrs)
            \o (IF n.sc /\ n.kids = <<>> /\ ~valTruthy THEN SelfCloseToken \o ">" ELSE ">" \o body \o "</" \o n.name \o ">")
       ELSE body                                      \* a text node: its text (if any), then its children
Printed == PrintNodes(Transformed)

(* ---------------------------- the HTML formatter with output.format on (html.py: element(), should_format(), get_indent(),
   push_snippet()); default options: indent TAB, newline LF, inlineBreak 3, formatSkip {html}, formatForce {body}, formatLeafNode
   off, comments off; text without line breaks and not starting with a tag.  NoNode stands for "no parent". *)
RECURSIVE Tabs(_)
Tabs(k) == IF k <= 0 THEN "" ELSE "\t" \o Tabs(k - 1)
NoNode == [name |-> "", attrs |-> <<>>, hasval |-> FALSE, value |-> <<>>, sc |-> FALSE, kids |-> <<>>, none |-> TRUE]
IsNone(n) == "none" \in DOMAIN n
IsSnippetN(n) == ~IsNone(n) /\ n.name = "" /\ n.attrs = <<>>                            \* is_snippet(): no name, no attributes
ValTruthy(n) == n.hasval /\ n.value # <<>>
IsInlineN(n) == IF n.name # "" THEN LowerS(n.name) \in InlineElements ELSE (ValTruthy(n) /\ n.attrs = <<>>)      \* is_inline()
IsInlineEl(items, i) == i >= 1 /\ i <= Len(items) /\ IsInlineN(items[i])                \* is_inline_element(get_item(...))
HasFieldV(vl) == \E i \in 1..Len(vl) : vl[i].f
RECURSIVE CountInline(_, _, _)
CountInline(items, i, step) == IF IsInlineEl(items, i) THEN 1 + CountInline(items, i + step, step) ELSE 0
FormatSkip == {"html"}
InlineBreak == 3
\* index is 1-based here; parent is the parent of the node for which element() asked - also for the look at the children ("stale" parent, as in the code)
RECURSIVE ShouldFormat(_, _, _, _)
ShouldFormat(n, index, items, parent) ==
    IF index = 1 /\ IsNone(parent) THEN FALSE
    ELSE IF ~IsNone(parent) /\ IsSnippetN(parent) /\ Len(items) = 1 THEN FALSE
    ELSE IF IsSnippetN(n) /\ ( (index > 1 /\ IsSnippetN(items[index - 1])) \/ (index < Len(items) /\ IsSnippetN(items[index + 1]))
                              \/ (HasFieldV(n.value) /\ n.kids # <<>>) ) THEN TRUE
    ELSE IF IsInlineN(n)
         THEN IF index = 1 /\ (\E k \in 1..Len(items) : ~IsInlineN(items[k])) THEN TRUE
              ELSE IF index > 1 /\ ~IsInlineN(items[index - 1]) THEN TRUE
              ELSE IF 1 + CountInline(items, index - 1, -1) + CountInline(items, index + 1, 1) >= InlineBreak THEN TRUE
              ELSE \E k \in 1..Len(n.kids) : ShouldFormat(n.kids[k], k, n.kids, parent)
    ELSE TRUE
NLine(level) == "\n" \o Tabs(level)                                                     \* push_newline(level): base indent is empty
HasNL(str) == \E i \in 1..Len(str) : SubSeq(str, i, i) = "\n"
RECURSIVE LStrip(_)
LStrip(str) == IF str # "" /\ IsSpace(SubSeq(str, 1, 1)) THEN LStrip(Tail(str)) ELSE str
RECURSIVE FmtNodes(_, _, _, _), FmtNode(_, _, _, _, _)
FmtNodes(items, k, parent, level) == IF k > Len(items) THEN "" ELSE FmtNode(items[k], k, items, parent, level) \o FmtNodes(items, k + 1, parent, level)
FmtNode(n, index, items, parent, level) ==
    LET fmt == ShouldFormat(n, index, items, parent)
        ind == IF IsNone(parent) \/ IsSnippetN(parent) \/ (parent.name # "" /\ parent.name \in FormatSkip) THEN 0 ELSE 1       \* get_indent()
        L == level + ind
        kids == FmtNodes(n.kids, 1, n, L)
        ff == IF ValTruthy(n) /\ n.kids # <<>> THEN FirstField(n.value) ELSE 0
        spliced == LET after == SubSeq(n.value, ff + 1, Len(n.value)) IN                  \* push_snippet()
                   Tokens(SubSeq(n.value, 1, ff - 1)) \o kids
                   \o (IF HasNL(kids) /\ after # <<>> /\ ~after[1].f THEN LStrip(after[1].s) \o Tokens(Tail(after)) ELSE Tokens(after))
        body == IF ff # 0 THEN spliced ELSE (IF ValTruthy(n) THEN Tokens(n.value) ELSE "") \o kids
        self == IF n.name # ""
                THEN "<" \o n.name \o PrintAttrs(n.attrs)
                     \o (IF n.sc /\ n.kids = <<>> /\ ~ValTruthy(n) THEN SelfCloseToken \o ">" ELSE ">" \o body \o "</" \o n.name \o ">")
                ELSE body
    IN (IF fmt THEN NLine(L) ELSE "") \o self
       \o (IF fmt /\ index = Len(items) /\ ~IsNone(parent) THEN NLine(L - (IF IsSnippetN(parent) THEN 0 ELSE 1)) ELSE "")
PrintedFmt == FmtNodes(Transformed, 1, NoNode, 0)

(* What C12 says of that output, checked on the model: the output is read back by the scanner transcription (HtmlScan.tla) and every
   line after the first must start with one tab per element open at that point (one less in front of a closing tag; a line without
   content is free), and a closing tag at the start of a line stands under its open tag if that was the first thing on its line.
   Element names of the instance are not void. *)
FOut == PrintedFmt
FCh(i) == IF i >= 0 /\ i < Len(FOut) THEN SubSeq(FOut, i + 1, i + 1) ELSE ""
RECURSIVE CountTabs(_)
CountTabs(q) == IF FCh(q) = "\t" THEN 1 + CountTabs(q + 1) ELSE 0
LayoutOk ==
    LET evs == HScan(FOut)
        NLs == {p \in 0..(Len(FOut) - 1) : FCh(p) = "\n"}
        OpenAt(q) == Cardinality({k \in 1..Len(evs) : evs[k].ty = 1 /\ evs[k].e <= q}) - Cardinality({k \in 1..Len(evs) : evs[k].ty = 2 /\ evs[k].e <= q})
        CloseAt(q) == \E k \in 1..Len(evs) : evs[k].ty = 2 /\ evs[k].s = q
        LineOk(p) == LET t == CountTabs(p + 1) q == p + 1 + t IN
                     ((q >= Len(FOut) \/ FCh(q) = "\n") /\ ~CloseAt(q)) \/ t = OpenAt(q) - (IF CloseAt(q) THEN 1 ELSE 0)
        \* the line a tag starts on: position of the line break before it (-1: the first line)
        LineOf(a) == LET B == {p \in NLs : p < a} IN IF B = {} THEN -1 ELSE CHOOSE p \in B : \A r \in B : r <= p
        TabsOf(a) == IF LineOf(a) = -1 THEN 0 ELSE CountTabs(LineOf(a) + 1)
        FirstOnLine(a) == a = LineOf(a) + 1 + TabsOf(a)
        Bal(j, k) == Cardinality({m \in (j + 1)..(k - 1) : evs[m].ty = 1}) = Cardinality({m \in (j + 1)..(k - 1) : evs[m].ty = 2})
        OpenOf(k) == LET J == {j \in 1..(k - 1) : evs[j].ty = 1 /\ Bal(j, k)} IN IF J = {} THEN 0 ELSE CHOOSE j \in J : \A r \in J : r <= j
        AlignOk(k) == (evs[k].ty = 2 /\ LineOf(evs[k].s) # -1 /\ FirstOnLine(evs[k].s) /\ OpenOf(k) # 0 /\ FirstOnLine(evs[OpenOf(k)].s))
                      => TabsOf(evs[k].s) = TabsOf(evs[OpenOf(k)].s)
    IN (\A p \in NLs : LineOk(p)) /\ (\A k \in 1..Len(evs) : AlignOk(k))

(* --------------------------------- the HAML / Pug / Slim formatter (indent_format.py) *)
(* default options: formatting on, newline LF, indent TAB; text without line breaks (multi-line text: IndentFormat.tla) *)
IOpt(syn) == CASE syn = "haml" -> [beforeName |-> "%", beforeAttr |-> "(", afterAttr |-> ")", glue |-> " ", boolVal |-> "true", selfClose |-> "/"]
               [] syn = "pug"  -> [beforeName |-> "",  beforeAttr |-> "(", afterAttr |-> ")", glue |-> ", ", boolVal |-> "",
                                   selfClose |-> IF SelfClosingStyle = "xml" THEN "/" ELSE ""]
               [] syn = "slim" -> [beforeName |-> "",  beforeAttr |-> " ", afterAttr |-> "",  glue |-> " ", boolVal |-> "", selfClose |-> "/"]
\* re.sub(r'\s+', '.', t): every run of white space in a string token becomes one dot
RECURSIVE DotWS(_, _)
DotWS(x, inRun) == IF x = "" THEN ""
                   ELSE IF IsSpace(SubSeq(x, 1, 1)) THEN (IF inRun THEN "" ELSE ".") \o DotWS(Tail(x), TRUE)
                   ELSE SubSeq(x, 1, 1) \o DotWS(Tail(x), FALSE)
RECURSIVE ClassTokens(_)
ClassTokens(vl) == IF vl = <<>> THEN "" ELSE (IF Head(vl).f THEN Head(vl).s ELSE DotWS(Head(vl).s, FALSE)) \o ClassTokens(Tail(vl))
IsPrimary(a) == a.name = "class" \/ a.name = "id"
RECURSIVE Primary(_)
Primary(as) == IF as = <<>> THEN ""
               ELSE (IF ~Head(as).hasval THEN "" ELSE IF Head(as).name = "class" THEN "." \o ClassTokens(Head(as).value) ELSE "#" \o Tokens(Head(as).value))
                    \o Primary(Tail(as))
SecAttr(a, o) == (IF a.name = NONE THEN "" ELSE a.name)
                 \o (IF IsBool(a) /\ ~Truthy(a) THEN (IF o.boolVal # "" THEN "=" \o o.boolVal ELSE "")      \* compactBoolean off
                     ELSE "=" \o LQ(a) \o (IF Truthy(a) THEN Tokens(a.value) ELSE "") \o RQ(a))
RECURSIVE SecList(_, _)
SecList(as, o) == IF as = <<>> THEN "" ELSE SecAttr(Head(as), o) \o (IF Len(as) > 1 THEN o.glue ELSE "") \o SecList(Tail(as), o)
RECURSIVE INodes(_, _, _, _, _), INode(_, _, _, _, _)
\* top: the items are top-level nodes; level: out.level of the parent
INode(n, index, top, level, o) ==
    LET lvl == IF top THEN level ELSE level + 1
        prim == SelectSeq(n.attrs, IsPrimary)
        sec == SelectSeq(n.attrs, LAMBDA a : ~IsPrimary(a) /\ ShouldOutput(a))
        snippet == n.name = "" /\ n.attrs = <<>>
        nl == IF (top /\ index = 1) \/ snippet THEN "" ELSE "\n" \o Tabs(lvl)
        head == IF n.name # "" /\ (n.name # "div" \/ prim = <<>>) THEN o.beforeName \o n.name ELSE ""
        secs == IF sec = <<>> THEN "" ELSE o.beforeAttr \o SecList(sec, o) \o o.afterAttr
        valTruthy == n.hasval /\ n.value # <<>>
        tail == IF n.sc /\ ~valTruthy /\ n.kids = <<>> THEN o.selfClose
                ELSE (IF ~valTruthy /\ n.kids # <<>> THEN ""                                   \* push_value(): nothing for a parent without text
                      ELSE (IF n.name # "" \/ n.attrs # <<>> THEN " " ELSE "") \o (IF valTruthy THEN Tokens(n.value) ELSE ""))
                     \o INodes(n.kids, 1, FALSE, lvl, o)
    IN nl \o head \o Primary(prim) \o secs \o tail
INodes(items, index, top, level, o) == IF items = <<>> THEN "" ELSE INode(Head(items), index, top, level, o) \o INodes(Tail(items), index + 1, top, level, o)
IndentPrinted(syn) == INodes(Transformed, 1, TRUE, 0, IOpt(syn))

(* ---------------------------------------------------------------- tabstops *)
(* The same two formatters with a field callback that prints ${n} / ${n:placeholder}: WalkState.field starts at 1, every    *)
(* push_tokens() call prints base + index for each of its fields and then advances the base by the largest index + 1       *)
(* (C13).  Every operator returns [s: the text, f: the base after it].                                                       *)
Mark(n, ph) == IF ph # "" THEN "${" \o ToString(n) \o ":" \o ph \o "}" ELSE "${" \o ToString(n) \o "}"
RECURSIVE TokF(_, _, _)
\* the items of one push_tokens() call: text and the largest index seen (-1: none)
TokF(vl, base, largest) == IF vl = <<>> THEN [s |-> "", l |-> largest]
                           ELSE LET h == Head(vl) r == TokF(Tail(vl), base, IF h.f /\ h.i > largest THEN h.i ELSE largest)
                                IN [s |-> (IF h.f THEN Mark(base + h.i, h.s) ELSE h.s) \o r.s, l |-> r.l]
Push(vl, base) == LET r == TokF(vl, base, -1) IN [s |-> r.s, f |-> IF r.l = -1 THEN base ELSE base + r.l + 1]
CaretItems == <<[f |-> TRUE, i |-> 0, s |-> ""]>>
PrintAttrF(a, base) ==
    IF ~Named(a) \/ ~ShouldOutput(a) THEN [s |-> "", f |-> base]
    ELSE LET v == IF Truthy(a) THEN Push(a.value, base) ELSE IF IsBool(a) THEN [s |-> a.name, f |-> base] ELSE Push(CaretItems, base)
         IN [s |-> " " \o a.name \o "=" \o LQ(a) \o v.s \o RQ(a), f |-> v.f]
RECURSIVE PrintAttrsF(_, _)
PrintAttrsF(as, base) == IF as = <<>> THEN [s |-> "", f |-> base]
                         ELSE LET h == PrintAttrF(Head(as), base) r == PrintAttrsF(Tail(as), h.f) IN [s |-> h.s \o r.s, f |-> r.f]
RECURSIVE PrintNodesF(_, _, _), PrintNodeF(_, _, _)
PrintNodesF(items, base, cm) == IF items = <<>> THEN [s |-> "", f |-> base]
                                ELSE LET h == PrintNodeF(Head(items), base, cm) r == PrintNodesF(Tail(items), h.f, cm) IN [s |-> h.s \o r.s, f |-> r.f]
(* comment.enabled with the default template "<!-- /[#ID][.CLASS] -->" after the closing tag of a named element that has an id or a
   class attribute: the values are printed again - through push_tokens(), so their fields take new numbers *)
CommentF(n, base) ==
    IF ~(\E i \in 1..Len(n.attrs) : n.attrs[i].name \in {"id", "class"}) THEN [s |-> "", f |-> base]
    ELSE LET AttrVal(nm) == IF \E i \in 1..Len(n.attrs) : n.attrs[i].name = nm /\ Truthy(n.attrs[i])
                        THEN n.attrs[CHOOSE i \in 1..Len(n.attrs) : n.attrs[i].name = nm /\ Truthy(n.attrs[i])
                                                                     /\ \A j \in (i + 1)..Len(n.attrs) : ~(n.attrs[j].name = nm /\ Truthy(n.attrs[j]))].value
                        ELSE <<>>
             a == IF AttrVal("id") = <<>> THEN [s |-> "", f |-> base] ELSE (LET v == Push(AttrVal("id"), base) IN [s |-> "#" \o v.s, f |-> v.f])
             b == IF AttrVal("class") = <<>> THEN [s |-> "", f |-> a.f] ELSE (LET v == Push(AttrVal("class"), a.f) IN [s |-> "." \o v.s, f |-> v.f])
         IN [s |-> "<!-- /" \o a.s \o b.s \o " -->", f |-> b.f]
BodyF(n, base, cm) ==
    LET valTruthy == n.hasval /\ n.value # <<>>
        ff == IF valTruthy /\ n.kids # <<>> THEN FirstField(n.value) ELSE 0
    IN IF ff # 0
       THEN LET a == Push(SubSeq(n.value, 1, ff - 1), base) k == PrintNodesF(n.kids, a.f, cm) c == Push(SubSeq(n.value, ff + 1, Len(n.value)), k.f)
            IN [s |-> a.s \o k.s \o c.s, f |-> c.f]
       ELSE LET v == IF valTruthy THEN Push(n.value, base) ELSE [s |-> "", f |-> base]
                k == PrintNodesF(n.kids, v.f, cm)
                c == IF ~valTruthy /\ n.kids = <<>> /\ n.name # "" THEN Push(CaretItems, k.f) ELSE [s |-> "", f |-> k.f]   \* the caret of an empty leaf
            IN [s |-> v.s \o k.s \o c.s, f |-> c.f]
PrintNodeF(n, base, cm) ==
    LET valTruthy == n.hasval /\ n.value # <<>> IN
    IF n.name # ""
    THEN LET at == PrintAttrsF(n.attrs, base) IN
         IF n.sc /\ n.kids = <<>> /\ ~valTruthy THEN [s |-> "<" \o n.name \o at.s \o SelfCloseToken \o ">", f |-> at.f]
         ELSE LET bd == BodyF(n, at.f, cm)
                  co == IF cm THEN CommentF(n, bd.f) ELSE [s |-> "", f |-> bd.f]
              IN [s |-> "<" \o n.name \o at.s \o ">" \o bd.s \o "</" \o n.name \o ">" \o co.s, f |-> co.f]
    ELSE BodyF(n, base, cm)
PrintedF == PrintNodesF(Transformed, 1, FALSE).s
PrintedFC == PrintNodesF(Transformed, 1, TRUE).s           \* with comment.enabled (layout of the comment not modelled: only its tabstops matter here)

RECURSIVE PrimaryF(_, _)
ClassItems(vl) == [i \in 1..Len(vl) |-> IF vl[i].f THEN vl[i] ELSE [vl[i] EXCEPT !.s = DotWS(@, FALSE)]]
PrimaryF(as, base) == IF as = <<>> THEN [s |-> "", f |-> base]
                      ELSE LET a == Head(as)
                               h == IF ~a.hasval THEN [s |-> "", f |-> base]
                                    ELSE IF a.name = "class" THEN (LET v == Push(ClassItems(a.value), base) IN [s |-> "." \o v.s, f |-> v.f])
                                    ELSE (LET v == Push(a.value, base) IN [s |-> "#" \o v.s, f |-> v.f])
                               r == PrimaryF(Tail(as), h.f)
                           IN [s |-> h.s \o r.s, f |-> r.f]
RECURSIVE SecListF(_, _, _)
SecListF(as, o, base) ==
    IF as = <<>> THEN [s |-> "", f |-> base]
    ELSE LET a == Head(as)
             nm == IF a.name = NONE THEN "" ELSE a.name
             h == IF IsBool(a) /\ ~Truthy(a) THEN [s |-> nm \o (IF o.boolVal # "" THEN "=" \o o.boolVal ELSE ""), f |-> base]
                  ELSE (LET v == Push(IF Truthy(a) THEN a.value ELSE CaretItems, base) IN [s |-> nm \o "=" \o LQ(a) \o v.s \o RQ(a), f |-> v.f])
             r == SecListF(Tail(as), o, h.f)
         IN [s |-> h.s \o (IF Len(as) > 1 THEN o.glue ELSE "") \o r.s, f |-> r.f]
RECURSIVE INodesF(_, _, _, _, _, _), INodeF(_, _, _, _, _, _)
INodeF(n, index, top, level, o, base) ==
    LET lvl == IF top THEN level ELSE level + 1
        prim == SelectSeq(n.attrs, IsPrimary)
        sec == SelectSeq(n.attrs, LAMBDA a : ~IsPrimary(a) /\ ShouldOutput(a))
        snippet == n.name = "" /\ n.attrs = <<>>
        nl == IF (top /\ index = 1) \/ snippet THEN "" ELSE "\n" \o Tabs(lvl)
        head == IF n.name # "" /\ (n.name # "div" \/ prim = <<>>) THEN o.beforeName \o n.name ELSE ""
        pr == PrimaryF(prim, base)
        sl == SecListF(sec, o, pr.f)
        secs == IF sec = <<>> THEN "" ELSE o.beforeAttr \o sl.s \o o.afterAttr
        valTruthy == n.hasval /\ n.value # <<>>
    IN IF n.sc /\ ~valTruthy /\ n.kids = <<>> THEN [s |-> nl \o head \o pr.s \o secs \o o.selfClose, f |-> sl.f]
       ELSE LET v == IF ~valTruthy /\ n.kids # <<>> THEN [s |-> "", f |-> sl.f]
                     ELSE (LET t == Push(IF valTruthy THEN n.value ELSE CaretItems, sl.f)
                           IN [s |-> (IF n.name # "" \/ n.attrs # <<>> THEN " " ELSE "") \o t.s, f |-> t.f])
                k == INodesF(n.kids, 1, FALSE, lvl, o, v.f)
            IN [s |-> nl \o head \o pr.s \o secs \o v.s \o k.s, f |-> k.f]
INodesF(items, index, top, level, o, base) ==
    IF items = <<>> THEN [s |-> "", f |-> base]
    ELSE LET h == INodeF(Head(items), index, top, level, o, base) r == INodesF(Tail(items), index + 1, top, level, o, h.f) IN [s |-> h.s \o r.s, f |-> r.f]
IndentPrintedF(syn) == INodesF(Transformed, 1, TRUE, 0, IOpt(syn), 1).s
=============================================================================
