------------------------------ MODULE CssScan ------------------------------
(* emmet.css_matcher: scan() and split_value(), transcribed branch by       *)
(* branch as functions of a source string (0-based positions as in code).   *)
(*   scan : one state record [s, e, pd, ps, pe, x] = ScanState (start, end, *)
(*          property_delimiter, property_start, property_end, expression),   *)
(*          comment (unclosed allowed), white space, "}" / ";" flush with   *)
(*          the pending property / pending token, "{" selector (a pending   *)
(*          name-value pair becomes the selector), ":" as property delimiter *)
(*          unless inside parentheses or followed by more colons, "(" ")",   *)
(*          string literal (ends at its quote or at a line break; escapes),  *)
(*          flush at the end of input with delimiter -1.                     *)
(*   split_value : white space / + / * , / "- " as value delimiters outside *)
(*          parentheses.                                                     *)
(* Events are [t, s, e, d] with t in "selector" "propertyName"              *)
(* "propertyValue" "blockEnd" as the callback receives them.                 *)
(* No state: used by CssScanMC.tla (all strings: C16 invariants on the      *)
(* model, model-vs-code comparison) and CssDoc.tla (scanner = truth).        *)
EXTENDS Common

CCh(src, p) == IF p >= 0 /\ p < Len(src) THEN SubSeq(src, p + 1, p + 1) ELSE ""
CQuote(c) == c = "\"" \/ c = "'"
RECURSIVE CEatSpace(_, _)
CEatSpace(src, p) == IF p < Len(src) /\ IsSpace(CCh(src, p)) THEN CEatSpace(src, p + 1) ELSE p
RECURSIVE CEatColons(_, _)
CEatColons(src, p) == IF CCh(src, p) = ":" THEN CEatColons(src, p + 1) ELSE p

RECURSIVE CCommentLoop(_, _)
CCommentLoop(src, i) ==
    IF i >= Len(src) THEN i
    ELSE IF CCh(src, i) = "*" THEN (IF CCh(src, i + 1) = "/" THEN i + 2 ELSE CCommentLoop(src, i + 1))
    ELSE CCommentLoop(src, i + 1)
CComment(src, p) == IF CCh(src, p) = "/" /\ CCh(src, p + 1) = "*" THEN CCommentLoop(src, p + 2) ELSE p

RECURSIVE CLiteralLoop(_, _, _)
CLiteralLoop(src, i, q) ==
    IF i >= Len(src) THEN i
    ELSE LET c == CCh(src, i) IN
         IF c = q \/ c = "\n" \/ c = "\r" THEN i + 1
         ELSE LET j == IF c = "\\" THEN i + 1 ELSE i IN            \* eat(backslash); then one more character unless at the end
              CLiteralLoop(src, IF j < Len(src) THEN j + 1 ELSE j, q)
CLiteral(src, p) == IF CQuote(CCh(src, p)) THEN CLiteralLoop(src, p + 1, CCh(src, p)) ELSE p

CEv(t, a, b, d) == [t |-> t, s |-> a, e |-> b, d |-> d]
CState0 == [s |-> -1, e |-> -1, pd |-> -1, ps |-> -1, pe |-> -1, x |-> 0]
CReset(st) == [CState0 EXCEPT !.x = st.x]

RECURSIVE CScanLoop(_, _, _, _)
CScanLoop(src, p, st, acc) ==
    IF p >= Len(src)
    THEN LET a1 == IF st.ps # -1 THEN Append(acc, CEv("propertyName", st.ps, st.pe, st.pd)) ELSE acc
         IN IF st.s # -1 THEN Append(a1, CEv(IF st.ps # -1 THEN "propertyValue" ELSE "propertyName", st.s, st.e, -1)) ELSE a1
    ELSE LET cm == CComment(src, p) IN
    IF cm > p THEN CScanLoop(src, cm, st, acc)
    ELSE LET ws == CEatSpace(src, p) IN
    IF ws > p THEN CScanLoop(src, ws, st, acc)
    ELSE LET c == CCh(src, p) IN
    IF c = "}" \/ c = ";"
    THEN LET a1 == IF st.ps # -1
                   THEN LET vs == IF st.s = -1 THEN p ELSE st.s
                            ve == IF st.s = -1 THEN p ELSE st.e
                        IN acc \o <<CEv("propertyName", st.ps, st.pe, st.pd), CEv("propertyValue", vs, ve, p)>>
                   ELSE IF st.s # -1 THEN Append(acc, CEv("propertyName", st.s, st.e, p))
                   ELSE acc
             a2 == IF c = "}" THEN Append(a1, CEv("blockEnd", p, p + 1, p)) ELSE a1
         IN CScanLoop(src, p + 1, CReset(st), a2)
    ELSE IF c = "{"
    THEN LET s1 == IF st.s = -1 /\ st.ps = -1 THEN p + 1
                   ELSE IF st.ps = -1 /\ st.pd # -1 THEN st.pd                    \* a selector that starts with a colon (:root): the colon belongs to it
                   ELSE st.s
             e1 == IF st.s = -1 /\ st.ps = -1 THEN p + 1 ELSE st.e
             s2 == IF st.ps # -1 THEN st.ps ELSE s1
             e2 == IF st.ps # -1 /\ e1 = -1 THEN st.pd + 1 ELSE e1
         IN CScanLoop(src, p + 1, CReset(st), Append(acc, CEv("selector", s2, e2, p)))
    ELSE IF c = ":" /\ st.x = 0 /\ CEatColons(src, p + 1) = p + 1
    THEN \* a property delimiter (or a pseudo-class, decided later)
         CScanLoop(src, p + 1, [st EXCEPT !.ps = IF st.ps # -1 THEN st.ps ELSE IF st.pd # -1 /\ st.s # -1 THEN st.pd ELSE st.s,      \* a name after a leading colon starts with that colon
                                          !.pe = IF st.e # -1 THEN st.e ELSE st.pe,
                                          !.pd = p, !.s = -1, !.e = -1], acc)
    ELSE LET q == IF c = ":" THEN (IF st.x # 0 THEN p + 1 ELSE CEatColons(src, p + 1))      \* a selector colon is the token
                  ELSE IF c = "(" \/ c = ")" THEN p + 1
                  ELSE LET l == CLiteral(src, p) IN IF l > p THEN l ELSE p + 1
             x1 == IF c = "(" THEN st.x + 1 ELSE IF c = ")" THEN st.x - 1 ELSE st.x
         IN CScanLoop(src, q, [st EXCEPT !.s = IF st.s = -1 THEN p ELSE st.s, !.e = q, !.x = x1], acc)
CScan(src) == CScanLoop(src, 0, CState0, <<>>)

(* ------------------------------------------------------------ split_value *)
COperator(c) == c \in {"+", "/", "*", ","}
RECURSIVE CSplitLoop(_, _, _, _, _)
CSplitLoop(v, p, start, x, acc) ==
    IF p >= Len(v) THEN (IF start # -1 /\ start # p THEN Append(acc, <<start, p>>) ELSE acc)
    ELSE LET c == CCh(v, p)
             delim == IF IsSpace(c) \/ COperator(c) THEN p + 1
                      ELSE IF c = "-" /\ IsSpace(CCh(v, p + 1)) THEN p + 2 ELSE p
         IN IF delim > p
            THEN LET cut == x = 0 /\ start # -1 IN
                 CSplitLoop(v, CEatSpace(v, delim), IF cut THEN -1 ELSE start, x, IF cut THEN Append(acc, <<start, p>>) ELSE acc)
            ELSE LET st1 == IF start = -1 THEN p ELSE start
                     q == IF c = "(" \/ c = ")" THEN p + 1 ELSE LET l == CLiteral(v, p) IN IF l > p THEN l ELSE p + 1
                 IN CSplitLoop(v, q, st1, IF c = "(" THEN x + 1 ELSE IF c = ")" THEN x - 1 ELSE x, acc)
CSplitValue(v) == CSplitLoop(v, 0, -1, 0, <<>>)

(* ------------------------------------------------ what C16 says of scan() *)
CRangeOk(src, evs) == \A k \in 1..Len(evs) : /\ 0 <= evs[k].s /\ evs[k].s <= evs[k].e /\ evs[k].e <= Len(src)
                                             /\ -1 <= evs[k].d /\ evs[k].d < Len(src)
CSplitOk(v, rs) == \A k \in 1..Len(rs) : /\ 0 <= rs[k][1] /\ rs[k][1] <= rs[k][2] /\ rs[k][2] <= Len(v)
                                         /\ (k > 1 => rs[k - 1][2] <= rs[k][1])
=============================================================================
