SPECIFICATION Spec
INVARIANT ScanRanges
INVARIANT ScanShape
INVARIANT ScanOrder
INVARIANT AttrRanges
INVARIANT MatchIsFirstOutward
INVARIANT OutwardNested
INVARIANT InwardNested
INVARIANT Dump
CHECK_DEADLOCK FALSE
