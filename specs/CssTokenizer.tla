---------------------------- MODULE CssTokenizer ----------------------------
(* emmet.css_abbreviation.tokenizer.tokenize, char level, as a function of   *)
(* the string held in the variable `s` (0-based positions as in the code).   *)
(* Transcribed branch by branch: custom property, field with placeholder,    *)
(* number (lone-dash and lone-dot rules) with unit, colour (#hex, #t, alpha, *)
(* lone # as literal), string, bracket with merge_tokens() before the first  *)
(* "(", operator, white space, literal in short / full notation, and the     *)
(* operator that is forcibly consumed after a colour or a unit-less number.  *)
(* Used by CssValues.tla (C05: round trip) and by the C18 comparison.        *)
EXTENDS Common

CONSTANT IsValue          \* tokenize(abbr, is_value)
VARIABLE s

N == Len(s)
C(p) == IF p >= 0 /\ p < N THEN SubSeq(s, p + 1, p + 1) ELSE ""
IsAlphaWord(c) == c = "_" \/ IsAlpha(c)
IsHex(c) == IsDigit(c) \/ c \in {"a", "b", "c", "d", "e", "f", "A", "B", "C", "D", "E", "F"}
IsQuoteCh(c) == c \in {"'", "\""}
IsKeyword(c) == IsDigit(c) \/ IsAlphaWord(c) \/ c = "-"
IsLiteralCh(c) == IsAlphaWord(c) \/ c = "%" \/ c = "/"
IsOpCh(c) == c \in {"+", "!", ",", ":", "-"}
Cls(c, k) == CASE k = "num" -> IsDigit(c) [] k = "hex" -> IsHex(c) [] k = "space" -> IsSpace(c) [] k = "keyword" -> IsKeyword(c)
               [] k = "literal" -> IsLiteralCh(c) [] k = "alphaword" -> IsAlphaWord(c)
RECURSIVE EatWhile(_, _)
EatWhile(p, k) == IF p < N /\ Cls(C(p), k) THEN EatWhile(p + 1, k) ELSE p
RECURSIVE Placeholder(_, _)
Placeholder(p, stack) ==
    IF p >= N THEN [p |-> p, stack |-> stack]
    ELSE IF C(p) = "{" THEN Placeholder(p + 1, Append(stack, p + 1))
    ELSE IF C(p) = "}" THEN (IF stack = <<>> THEN [p |-> p, stack |-> stack] ELSE Placeholder(p + 1, Front(stack)))
    ELSE Placeholder(p + 1, stack)

NoTok == [t |-> "none", s |-> 0, e |-> 0, unitless |-> FALSE, pos |-> 0]
ErrTok(p) == [t |-> "error", s |-> 0, e |-> 0, unitless |-> FALSE, pos |-> p]
Tok(t, a, b) == [t |-> t, s |-> a, e |-> b, unitless |-> FALSE, pos |-> 0]

CustomProp(p) == IF C(p) = "-" /\ C(p + 1) = "-" THEN Tok("CustomProperty", p, EatWhile(p + 2, "keyword")) ELSE NoTok
FieldTok(p) ==
    IF ~(C(p) = "$" /\ C(p + 1) = "{") THEN NoTok
    ELSE LET q == p + 2
             d == EatWhile(q, "num")
             fin(e) == IF C(e) = "}" THEN Tok("Field", p, e + 1) ELSE ErrTok(e)
             ph(st) == LET r == Placeholder(st, <<>>) IN IF r.stack # <<>> THEN ErrTok(Last(r.stack)) ELSE fin(r.p)
         IN IF d > q THEN (IF C(d) = ":" THEN ph(d + 1) ELSE fin(d))
            ELSE IF IsAlpha(C(q)) THEN ph(q) ELSE fin(q)
\* consume_number: end position (= p when there is no number)
ConsumeNumber(p) ==
    LET an == IF C(p) = "-" THEN p + 1 ELSE p
        d == EatWhile(an, "num")
        hasDec == d > an
        e == IF C(d) = "." THEN (LET f == EatWhile(d + 1, "num") IN IF ~hasDec /\ f = d + 1 THEN d ELSE f) ELSE d
    IN IF e = an THEN p ELSE e
NumberTok(p) == LET e == ConsumeNumber(p) IN
                IF e = p THEN NoTok
                ELSE LET u == IF C(e) = "%" THEN e + 1 ELSE EatWhile(e, "alphaword")
                     IN [t |-> "NumberValue", s |-> p, e |-> u, unitless |-> (u = e), pos |-> e]      \* pos: end of the digits
ColorAlphaEnd(p) == IF C(p) = "." THEN EatWhile(p + 1, "num") ELSE p
ColorTok(p) ==
    IF C(p) # "#" THEN NoTok
    ELSE LET h == EatWhile(p + 1, "hex") IN
         IF h > p + 1 THEN [Tok("ColorValue", p, ColorAlphaEnd(h)) EXCEPT !.pos = h]                  \* pos: end of the hex digits
         ELSE IF C(p + 1) = "t" THEN [Tok("ColorValue", p, ColorAlphaEnd(p + 2)) EXCEPT !.pos = p + 2]
         ELSE LET a == ColorAlphaEnd(p + 1) IN
              IF a > p + 1 \/ p + 1 >= N THEN [Tok("ColorValue", p, a) EXCEPT !.pos = p + 1] ELSE Tok("Literal", p, p + 1)
RECURSIVE StrEnd(_, _)
StrEnd(p, q) == IF p >= N THEN p ELSE IF C(p) = q THEN p + 1 ELSE StrEnd(p + 1, q)
StringTok(p) == IF IsQuoteCh(C(p)) THEN Tok("StringValue", p, StrEnd(p + 1, C(p))) ELSE NoTok
BracketTok(p) == IF C(p) \in {"(", ")"} THEN Tok("Bracket", p, p + 1) ELSE NoTok
OperatorTok(p) == IF p < N /\ IsOpCh(C(p)) THEN Tok("Operator", p, p + 1) ELSE NoTok
WhiteTok(p) == LET e == EatWhile(p, "space") IN IF e > p THEN Tok("WhiteSpace", p, e) ELSE NoTok
LiteralTok(p, short) ==
    LET e == IF C(p) \in {"@", "$"} THEN EatWhile(p + 1, IF p > 0 THEN "keyword" ELSE "literal")
             ELSE IF IsAlphaWord(C(p)) THEN EatWhile(p + 1, IF short THEN "literal" ELSE "keyword")
             ELSE EatWhile((IF C(p) = "." THEN p + 1 ELSE p), "literal")
    IN IF e > p THEN Tok("Literal", p, e) ELSE NoTok
FirstTok(sq) == LET idx == {i \in 1..Len(sq) : sq[i].t # "none"} IN
                IF idx = {} THEN NoTok ELSE sq[CHOOSE i \in idx : \A j \in idx : i <= j]
StepTok(p, brackets) == FirstTok(<<CustomProp(p), FieldTok(p), NumberTok(p), ColorTok(p), StringTok(p), BracketTok(p), OperatorTok(p),
                                   WhiteTok(p), LiteralTok(p, brackets = 0 /\ ~IsValue)>>)
\* merge_tokens(): trailing Literal / NumberValue tokens become one literal
RECURSIVE MergeStart(_, _)
MergeStart(acc, k) == IF k >= 1 /\ acc[k].t \in {"Literal", "NumberValue"} THEN MergeStart(acc, k - 1) ELSE k
Merge(acc) == LET k == MergeStart(acc, Len(acc)) IN
              IF k = Len(acc) THEN acc ELSE Append(SubSeq(acc, 1, k), Tok("Literal", acc[k + 1].s, acc[Len(acc)].e))
RECURSIVE Run(_, _, _)
Run(p, brackets, acc) ==
    IF p >= N THEN [toks |-> acc, err |-> -1]
    ELSE LET tk == StepTok(p, brackets) IN
         IF tk.t = "none" THEN [toks |-> acc, err |-> p]
         ELSE IF tk.t = "error" THEN [toks |-> acc, err |-> tk.pos]
         ELSE LET isBr == tk.t = "Bracket"
                  open == isBr /\ C(tk.s) = "("
                  acc1 == IF isBr /\ brackets = 0 /\ open THEN Merge(acc) ELSE acc
                  br2 == IF isBr THEN (IF open THEN brackets + 1 ELSE brackets - 1) ELSE brackets
              IN IF br2 < 0 THEN [toks |-> acc, err |-> tk.s]
                 ELSE LET acc2 == Append(acc1, tk)
                          dash == tk.t = "ColorValue" \/ (tk.t = "NumberValue" /\ tk.unitless)
                          op == IF dash THEN OperatorTok(tk.e) ELSE NoTok
                      IN IF op.t # "none" THEN Run(op.e, br2, Append(acc2, op)) ELSE Run(tk.e, br2, acc2)
Tokens == Run(0, 0, <<>>)
TilingOf(r) == IF r.err # -1 THEN r.err >= 0 /\ r.err <= N
               ELSE /\ (r.toks # <<>> => r.toks[1].s = 0 /\ r.toks[Len(r.toks)].e = N)
                    /\ (r.toks = <<>> => N = 0)
                    /\ \A k \in 1..Len(r.toks) : r.toks[k].s < r.toks[k].e
                    /\ \A k \in 1..Len(r.toks) - 1 : r.toks[k].e = r.toks[k + 1].s
=============================================================================
