SPECIFICATION GSpec
INVARIANT Accepted
INVARIANT BDump
CHECK_DEADLOCK FALSE
