---------------------------- MODULE ConfigLayers ----------------------------
(* C20 - emmet.config.merged_data: six layers, later ones override.          *)
(*   0 built-in defaults          3 global config for the type               *)
(*   1 defaults of the type       4 global config for the syntax             *)
(*   2 defaults of the syntax     5 the call's own config                    *)
(* A layer is a partial function on keys (NONE = does not mention the key).  *)
(* Machine : result := {} ; six update() steps in the order above.           *)
(* Contract: the value of the most specific layer that mentions the key.     *)
(* An unknown syntax name has no syntax defaults (layer 2 empty) but may     *)
(* still be addressed by the global config (layer 4).                        *)
EXTENDS Common, Json

CONSTANTS Keys
NONE == "-"
L == 0..5
Val(i) == "v" \o ToString(i)          \* the value layer i gives to a key it mentions

VARIABLES layers, known, result, step
vars == <<layers, known, result, step>>

LayerSets == [L -> [Keys -> BOOLEAN]]
Init == /\ known \in BOOLEAN
        /\ \E d \in LayerSets :
              /\ (~known => \A k \in Keys : ~d[2][k])
              /\ layers = [i \in L |-> [k \in Keys |-> IF d[i][k] THEN Val(i) ELSE NONE]]
        /\ result = [k \in Keys |-> NONE]
        /\ step = 0

Update == /\ step <= 5
          /\ result' = [k \in Keys |-> IF layers[step][k] # NONE THEN layers[step][k] ELSE result[k]]
          /\ step' = step + 1
          /\ UNCHANGED <<layers, known>>
Next == Update
Spec == Init /\ [][Next]_vars

Definers(k) == {i \in L : layers[i][k] # NONE}
RECURSIVE SetMax(_)
SetMax(S) == CHOOSE x \in S : \A y \in S : y <= x
Effective(k) == IF Definers(k) = {} THEN NONE ELSE layers[SetMax(Definers(k))][k]

MergeInv == step = 6 => \A k \in Keys : result[k] = Effective(k)
\* a layer that does not mention a key leaves it untouched (every intermediate result)
Untouched == \A k \in Keys : step >= 1 /\ layers[step - 1][k] = NONE =>
                result[k] = (IF {i \in Definers(k) : i < step - 1} = {} THEN NONE
                             ELSE layers[SetMax({i \in Definers(k) : i < step - 1})][k])
\* merging never writes to a layer
LayersConstant == [][layers' = layers]_vars

SortedSeq(S) == LET RECURSIVE Build(_, _)
                    Build(i, acc) == IF i > 5 THEN acc ELSE Build(i + 1, IF i \in S THEN Append(acc, i) ELSE acc)
                IN Build(0, <<>>)
Dump == step = 6 => PrintT(<<"VEC", ToJson([known |-> known,
                                             defs |-> [k \in Keys |-> SortedSeq(Definers(k))],
                                             eff |-> [k \in Keys |-> IF Definers(k) = {} THEN -1 ELSE SetMax(Definers(k))]])>>)
=============================================================================
