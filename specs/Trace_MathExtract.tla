-------------------------- MODULE Trace_MathExtract --------------------------
(* C19, extract clause - trace validation of recorded calls of               *)
(* emmet.math_expression.extract(text, pos, {lookAhead, whitespace}).        *)
(* One trace = one text; one event = one call with its result.  The monitor  *)
(* recomputes the look-ahead adjusted end from the text alone and judges the *)
(* reported range; a verdict line is printed per trace.                      *)
EXTENDS Common, Json, IOUtils

Traces == ndJsonDeserialize(IOEnv.TRACE_FILE)

VARIABLES tid, l, ok
vars == <<tid, l, ok>>

Tr == Traces[tid]
Text == Tr.text
Ev == Tr.events

Init == tid \in 1..Len(Traces) /\ l = 1 /\ ok = "ok"

\* the caret may move right across ")" (and blanks, when blanks are allowed) only if it stands before a ")"
RECURSIVE Closers(_, _)
Closers(p, ws) == IF p < Len(Text) /\ (At(Text, p + 1) = ")" \/ (ws /\ IsSpace(At(Text, p + 1)))) THEN Closers(p + 1, ws) ELSE p
AdjustedEnd(pos, la, ws) == IF la /\ At(Text, pos + 1) = ")" THEN Closers(pos + 1, ws) ELSE pos

Allowed == Digits \cup {".", "+", "-", "*", "/", "\\", "(", ")", " ", "\t", "\n", "\r"}
RECURSIVE OnlyAllowed(_, _), Balance(_, _, _)
OnlyAllowed(a, b) == a >= b \/ (At(Text, a + 1) \in Allowed /\ OnlyAllowed(a + 1, b))
\* running balance never negative and zero at the end
Balance(a, b, n) == IF a >= b THEN n = 0
                    ELSE LET c == At(Text, a + 1) IN
                         IF c = "(" THEN Balance(a + 1, b, n + 1)
                         ELSE IF c = ")" THEN (n > 0 /\ Balance(a + 1, b, n - 1))
                         ELSE Balance(a + 1, b, n)

Judge(e) == IF e.none THEN "ok"
            ELSE IF ~(0 <= e.s /\ e.s <= e.e /\ e.e <= Len(Text)) THEN "range"
            ELSE IF e.e # AdjustedEnd(e.pos, e.la, e.ws) THEN "end"
            ELSE IF ~OnlyAllowed(e.s, e.e) THEN "chars"
            ELSE IF ~Balance(e.s, e.e, 0) THEN "parens"
            ELSE "ok"

Call == /\ l <= Len(Ev) /\ ok = "ok"
        /\ ok' = Judge(Ev[l])
        /\ l' = l + 1 /\ UNCHANGED tid
Next == Call
Spec == Init /\ [][Next]_vars

Verdict == /\ (ok # "ok" => PrintT(<<"REJECT", Tr.tid, l - 1, ok>>))
           /\ ((ok = "ok" /\ l = Len(Ev) + 1) => PrintT(<<"ACCEPT", Tr.tid>>))
=============================================================================
