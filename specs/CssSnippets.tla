----------------------------- MODULE CssSnippets -----------------------------
(* C06 - a stylesheet snippet is always reachable by its own key.            *)
(*                                                                           *)
(* The snippet table is the raw `snippets` dict of emmet/snippets/css.py of  *)
(* the tree under test, dumped to JSON by the harness ([{keys, def}]) and    *)
(* read here; keys are split at "|" and definitions are taken apart by the   *)
(* specification's own rules (not by parse_snippets / create_snippet):       *)
(*   property snippet = [a-z-]+ optionally followed by ":" and alternatives  *)
(*   separated by "|"; anything else is a raw snippet.                       *)
(* Machine : calculate_score() with exact rationals, and the find_best_match *)
(*   loop (direct-hit shortcut, `score and score >= max_score`).             *)
(* Checked on the whole table: every key selects its own entry (OwnKey), no  *)
(* other key is a direct hit for it (NoOtherDirectHit; a partial-match score may   *)
(* exceed 1, only equality with 1 is a direct hit), every dash-free keyword typed in     *)
(* full, in any letter case, resolves to itself among the snippet's keywords *)
(* (KeywordSelf).                                                            *)
EXTENDS Common, Json, IOUtils

RawFile == JsonDeserialize(IOEnv.TABLE_FILE)      \* evaluated once, in Init

RECURSIVE SplitAt(_, _, _, _, _)
SplitAt(str, sep, i, cur, acc) == IF i > Len(str) THEN Append(acc, cur)
                                  ELSE IF SubSeq(str, i, i) = sep THEN SplitAt(str, sep, i + 1, "", Append(acc, cur))
                                  ELSE SplitAt(str, sep, i + 1, cur \o SubSeq(str, i, i), acc)
Split(str, sep) == SplitAt(str, sep, 1, "", <<>>)
LowerAZ == "abcdefghijklmnopqrstuvwxyz"
UpperAZ == "ABCDEFGHIJKLMNOPQRSTUVWXYZ"
IdxIn(str, c) == CHOOSE i \in 1..Len(str) : SubSeq(str, i, i) = c
LowerOf(c) == IF c \in Upper THEN SubSeq(LowerAZ, IdxIn(UpperAZ, c), IdxIn(UpperAZ, c)) ELSE c
UpperOf(c) == IF c \in Lower THEN SubSeq(UpperAZ, IdxIn(LowerAZ, c), IdxIn(LowerAZ, c)) ELSE c
RECURSIVE LowerStr(_), UpperStr(_)
LowerStr(x) == IF x = "" THEN "" ELSE LowerOf(At(x, 1)) \o LowerStr(Tail(x))
UpperStr(x) == IF x = "" THEN "" ELSE UpperOf(At(x, 1)) \o UpperStr(Tail(x))
RECURSIVE Flatten(_, _, _)
Flatten(raw, i, acc) == IF i > Len(raw) THEN acc
                   ELSE LET ks == Split(raw[i].keys, "|") IN
                        Flatten(raw, i + 1, acc \o [j \in 1..Len(ks) |-> [key |-> ks[j], lkey |-> LowerStr(ks[j]), row |-> i]])
(* the flattened table is computed once and kept in a variable; k walks over its entries *)
VARIABLES Raw, Table, k

(* ---------------------------------------- definitions, by the spec's rules *)
IsPropCh(c) == c \in Lower \/ c = "-"
RECURSIVE PropEnd(_, _)
PropEnd(d, i) == IF i <= Len(d) /\ IsPropCh(At(d, i)) THEN PropEnd(d, i + 1) ELSE i
RECURSIVE HasNewline(_, _)
HasNewline(d, i) == i <= Len(d) /\ (At(d, i) \in {"\n", "\r"} \/ HasNewline(d, i + 1))
RECURSIVE LStripS(_), RStripS(_)
LStripS(x) == IF x # "" /\ At(x, 1) \in {" ", "\t"} THEN LStripS(Tail(x)) ELSE x
RStripS(x) == IF x # "" /\ At(x, Len(x)) \in {" ", "\t", ";"} THEN RStripS(SubSeq(x, 1, Len(x) - 1)) ELSE x
RECURSIVE StripSemis(_), HasSemi(_, _)
StripSemis(x) == IF x # "" /\ At(x, Len(x)) = ";" THEN StripSemis(SubSeq(x, 1, Len(x) - 1)) ELSE x
HasSemi(x, i) == i <= Len(x) /\ (At(x, i) = ";" \/ HasSemi(x, i + 1))
Def(r) == LET d == Raw[r].def
              e == PropEnd(d, 1)
              after == IF e <= Len(d) THEN LStripS(SubSeq(d, e, Len(d))) ELSE ""           \* ":" value ";"* when it is a property
              \* re_property: the value is at least one character and holds no semicolon - only trailing ones are dropped
              \* ("overflow:hidden;text-overflow:ellipsis" is a raw snippet)
              isProp == e > 1 /\ ~HasNewline(d, 1)
                        /\ (e = Len(d) + 1 \/ (At(after, 1) = ":" /\ LET v == StripSemis(Tail(after)) IN v # "" /\ ~HasSemi(v, 1)))
              rest == IF isProp /\ e <= Len(d) THEN RStripS(LStripS(Tail(LStripS(SubSeq(d, e, Len(d)))))) ELSE ""
          IN [kind |-> IF isProp THEN "prop" ELSE "raw", prop |-> IF isProp THEN SubSeq(d, 1, e - 1) ELSE "",
              alts |-> IF rest = "" THEN <<>> ELSE Split(rest, "|"), body |-> d]
\* ${n} -> "" ; ${n:placeholder} -> placeholder (placeholders in the table hold no braces)
RECURSIVE Plain(_, _)
RECURSIVE CloseAt(_, _)
CloseAt(x, i) == IF i > Len(x) THEN i ELSE IF At(x, i) = "}" THEN i ELSE CloseAt(x, i + 1)
RECURSIVE DigitsEnd(_, _)
DigitsEnd(x, i) == IF IsDigit(At(x, i)) THEN DigitsEnd(x, i + 1) ELSE i
Plain(x, i) == IF i > Len(x) THEN ""
               ELSE IF At(x, i) = "$" /\ At(x, i + 1) = "{" /\ IsDigit(At(x, i + 2))
                    THEN LET d == DigitsEnd(x, i + 2)
                             c == CloseAt(x, d)
                         IN (IF At(x, d) = ":" THEN SubSeq(x, d + 1, c - 1) ELSE "") \o Plain(x, c + 1)
               ELSE At(x, i) \o Plain(x, i + 1)
RECURSIVE AllAlpha(_, _)
AllAlpha(x, i) == i > Len(x) \/ (IsAlpha(At(x, i)) /\ AllAlpha(x, i + 1))
DashFreeKeywords(alts) == SelectSeq(alts, LAMBDA a : a # "" /\ AllAlpha(a, 1))
\* alternatives that are function calls name(...) with an all-letter name: typing the name selects the whole call
RECURSIVE ParenAt(_, _)
ParenAt(x, i) == IF i > Len(x) THEN 0 ELSE IF At(x, i) = "(" THEN i ELSE ParenAt(x, i + 1)
RECURSIVE AllAlnum(_, _), HasDigit(_, _)
AllAlnum(x, i) == i > Len(x) \/ ((IsAlpha(At(x, i)) \/ IsDigit(At(x, i))) /\ AllAlnum(x, i + 1))
HasDigit(x, i) == i <= Len(x) /\ (IsDigit(At(x, i)) \/ HasDigit(x, i + 1))
\* a function name is letters and digits after a first letter (scale3d); digit: the name holds a digit (known finding F44)
IsFnAlt(a) == LET p == ParenAt(a, 1) IN p > 1 /\ At(a, Len(a)) = ")" /\ IsAlpha(At(a, 1)) /\ AllAlnum(SubSeq(a, 1, p - 1), 1)
FnKeywords(alts) == LET f == SelectSeq(alts, IsFnAlt) IN [i \in 1..Len(f) |-> [name |-> SubSeq(f[i], 1, ParenAt(f[i], 1) - 1), out |-> Plain(f[i], 1),
                                                                             digit |-> HasDigit(SubSeq(f[i], 1, ParenAt(f[i], 1) - 1), 1)]]
RECURSIVE FieldInQuotes(_, _, _)
FieldInQuotes(x, i, q) == i <= Len(x) /\ (IF q # "" THEN (IF At(x, i) = q THEN FieldInQuotes(x, i + 1, "")
                                                           ELSE (At(x, i) = "$" /\ At(x, i + 1) = "{") \/ FieldInQuotes(x, i + 1, q))
                                          ELSE IF At(x, i) \in {"'", "\""} THEN FieldInQuotes(x, i + 1, At(x, i))
                                          ELSE FieldInQuotes(x, i + 1, ""))

(* ------------------------------------------------- calculate_score (exact) *)
A0(str, i) == SubSeq(str, i + 1, i + 1)          \* 0-based
RECURSIVE Inner(_, _, _, _, _), Outer(_, _, _, _, _, _)
Inner(s2, j, ch1, acr, L2) == IF j >= L2 THEN [found |-> FALSE, j |-> j, acr |-> acr]
                              ELSE IF A0(s2, j) = ch1 THEN [found |-> TRUE, j |-> j, acr |-> acr]
                              ELSE Inner(s2, j + 1, ch1, A0(s2, j) = "-", L2)
Outer(s1, s2, i, j, score, partial) ==
    LET L1 == Len(s1) L2 == Len(s2) ML == Max(L1, L2) IN
    IF i >= L1 THEN [i |-> i, score |-> score, fail |-> FALSE]
    ELSE LET r == Inner(s2, j, A0(s1, i), FALSE, L2) IN
         IF r.found THEN Outer(s1, s2, i + 1, r.j, score + ML - (IF r.acr THEN i ELSE r.j), partial)
         ELSE IF ~partial THEN [i |-> i, score |-> score, fail |-> TRUE]
         ELSE [i |-> i, score |-> score, fail |-> FALSE]
\* both arguments already in lower case
CalcL(s1, s2, partial) ==
    LET L1 == Len(s1) L2 == Len(s2) ML == Max(L1, L2) d == ML - Min(L1, L2) IN
    IF s1 = s2 THEN <<1, 1>>
    ELSE IF L1 = 0 \/ L2 = 0 \/ A0(s1, 0) # A0(s2, 0) THEN <<0, 1>>
    ELSE IF ~partial /\ L1 > L2 THEN <<0, 1>>
    ELSE LET o == Outer(s1, s2, 1, 1, ML, partial) IN
         IF o.fail THEN <<0, 1>>
         ELSE <<2 * o.score * o.i, ML * (ML * (ML + 1) - d * (d + 1))>>
Calc(x1, x2, partial) == CalcL(LowerStr(x1), LowerStr(x2), partial)
GE(a, b) == a[1] * b[2] >= b[1] * a[2]
IsOne(a) == a[1] = a[2]

(* find_best_match over the table (partial match, min score 0) and over a keyword list (no partial match) *)
RECURSIVE Best(_, _, _, _)
Best(abbr, i, mx, matched) ==
    IF i > Len(Table) THEN matched
    ELSE LET sc == CalcL(abbr, Table[i].lkey, TRUE) IN      \* abbr is passed in lower case
         IF IsOne(sc) THEN i
         ELSE IF sc[1] # 0 /\ GE(sc, mx) THEN Best(abbr, i + 1, sc, i) ELSE Best(abbr, i + 1, mx, matched)
RECURSIVE BestKw(_, _, _, _, _)
BestKw(kw, list, i, mx, matched) ==
    IF i > Len(list) THEN matched
    ELSE LET sc == Calc(kw, list[i], FALSE) IN
         IF IsOne(sc) THEN i
         ELSE IF sc[1] # 0 /\ GE(sc, mx) THEN BestKw(kw, list, i + 1, sc, i) ELSE BestKw(kw, list, i + 1, mx, matched)

(* k = 0: start; k = -g: group g chosen; k > 0: entry k is examined (two levels so that TLC's workers share the entries) *)
Groups == 16
Init == LET raw == RawFile IN Raw = raw /\ Table = Flatten(raw, 1, <<>>) /\ k = 0
Next == /\ UNCHANGED <<Raw, Table>>
        /\ \/ k = 0 /\ k' \in {-g : g \in 1..Groups}
           \/ k < 0 /\ k' \in {i \in 1..Len(Table) : i % Groups = (-k) - 1}
Spec == Init /\ [][Next]_<<Raw, Table, k>>

Own == Best(Table[k].lkey, 1, <<0, 1>>, 0)
OwnKey == k > 0 => Own # 0 /\ Table[Own].key = Table[k].key
NoOtherDirectHit == k > 0 => \A j \in 1..Len(Table) : Table[j].key # Table[k].key => ~IsOne(CalcL(Table[k].lkey, Table[j].lkey, TRUE))
D == Def(Table[k].row)
Kws == DashFreeKeywords(D.alts)
KeywordSelf == k > 0 => \A i \in 1..Len(Kws) : \A form \in {Kws[i], UpperStr(Kws[i])} :
                   LET b == BestKw(form, Kws, 1, <<0, 1>>, 0) IN b # 0 /\ Kws[b] = Kws[i]

Dump == k > 0 => PrintT(<<"VEC", ToJson([key |-> Table[k].key, kind |-> D.kind, prop |-> D.prop,
                                 first |-> IF D.alts = <<>> THEN "" ELSE Plain(D.alts[1], 1), firstraw |-> IF D.alts = <<>> THEN "" ELSE D.alts[1],
                                 nalts |-> Len(D.alts), body |-> D.body, keywords |-> Kws, fnkeywords |-> FnKeywords(D.alts),
                                 quotedField |-> FieldInQuotes(D.body, 1, "")])>>)
=============================================================================
