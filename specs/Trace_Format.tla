----------------------------- MODULE Trace_Format -----------------------------
(* C12 - indentation equals nesting depth: the output read as a trace.       *)
(* Events (from the independent tag lexer, in output order):                 *)
(*   line(baseok, units, blank)  start of every line after the first: does   *)
(*        it start with baseIndent, how many indent units follow, is the     *)
(*        rest blank                                                         *)
(*   open(name, trig) / close(name) / selfclose(name, trig) / text / comment *)
(*        trig: the element carries an id or class (comment trigger)         *)
(* Monitor state: the stack of open elements, each with the indentation of   *)
(* the line its open tag is on and whether that tag was the first thing on   *)
(* its line.  Clauses (rejection names):                                     *)
(*   base-indent, indent-is-not-depth, unbalanced,                           *)
(*   close-not-aligned-with-open                  (open tag first on its line)*)
(*   close-not-aligned-open-tag-inside-a-line     (known finding F27)        *)
(*   comment-not-adjacent-to-trigger                                         *)
EXTENDS Common, Json, IOUtils

Traces == ndJsonDeserialize(IOEnv.TRACE_FILE)
VARIABLES tid, l, stack, lineUnits, atLineStart, lastClosedTrig, ok
vars == <<tid, l, stack, lineUnits, atLineStart, lastClosedTrig, ok>>
Tr == Traces[tid]
Ev == Tr.events
Init == tid \in 1..Len(Traces) /\ l = 1 /\ stack = <<>> /\ lineUnits = 0 /\ atLineStart = TRUE /\ lastClosedTrig = FALSE /\ ok = "ok"
E == Ev[l]
Adv == l' = l + 1 /\ UNCHANGED tid
NextIsClose == l + 1 <= Len(Ev) /\ Ev[l + 1].ev = "close"
\* the comment template may itself end in a line break (comment.before = "<!-- ... -->" + LF): line starts between a comment and its element are skipped
RECURSIVE SkipLines(_)
SkipLines(i) == IF i <= Len(Ev) /\ Ev[i].ev = "line" THEN SkipLines(i + 1) ELSE i
NextIsTrigOpen == LET j == SkipLines(l + 1) IN j <= Len(Ev) /\ Ev[j].ev \in {"open", "selfclose"} /\ Ev[j].trig
Line == /\ E.ev = "line" /\ Adv
        /\ ok' = IF ~Tr.indent_clause THEN "ok"
                 ELSE IF ~E.baseok THEN "base-indent"
                 ELSE IF E.blank /\ ~NextIsClose THEN "ok"
                 ELSE IF E.units # (IF NextIsClose THEN Len(stack) - 1 ELSE Len(stack)) THEN "indent-is-not-depth" ELSE "ok"
        /\ lineUnits' = E.units /\ atLineStart' = TRUE /\ UNCHANGED <<stack, lastClosedTrig>>
Open == /\ E.ev = "open" /\ Adv /\ ok' = "ok"
        /\ stack' = Append(stack, [name |-> E.name, units |-> lineUnits, first |-> atLineStart])
        /\ atLineStart' = FALSE /\ lastClosedTrig' = FALSE /\ UNCHANGED lineUnits
Close == /\ E.ev = "close" /\ Adv
         /\ ok' = IF stack = <<>> \/ Last(stack).name # E.name THEN "unbalanced"
                  ELSE IF Tr.indent_clause /\ atLineStart /\ Last(stack).units # lineUnits
                       THEN (IF Last(stack).first THEN "close-not-aligned-with-open" ELSE "close-not-aligned-open-tag-inside-a-line")
                  ELSE "ok"
         /\ stack' = IF stack = <<>> THEN stack ELSE Front(stack)
         /\ lastClosedTrig' = E.trig
         /\ atLineStart' = FALSE /\ UNCHANGED lineUnits
Comment == /\ E.ev = "comment" /\ Adv
           /\ ok' = IF lastClosedTrig \/ NextIsTrigOpen THEN "ok" ELSE "comment-not-adjacent-to-trigger"
           /\ atLineStart' = FALSE /\ UNCHANGED <<stack, lineUnits, lastClosedTrig>>
Other == /\ E.ev \in {"selfclose", "text"} /\ Adv /\ ok' = "ok" /\ atLineStart' = FALSE
         /\ lastClosedTrig' = (E.ev = "selfclose" /\ E.trig) /\ UNCHANGED <<stack, lineUnits>>
Next == l <= Len(Ev) /\ ok = "ok" /\ (Line \/ Open \/ Close \/ Comment \/ Other)
Spec == Init /\ [][Next]_vars
Verdict == /\ (ok # "ok" => PrintT(<<"REJECT", Tr.tid, l - 1, ok>>))
           /\ ((ok = "ok" /\ l = Len(Ev) + 1) => IF stack = <<>> THEN PrintT(<<"ACCEPT", Tr.tid>>) ELSE PrintT(<<"REJECT", Tr.tid, 0, "unbalanced">>))
=============================================================================
