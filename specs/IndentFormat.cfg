SPECIFICATION ISpec
INVARIANT TreeInv
INVARIANT DepthStep
INVARIANT LinesFollowTree
INVARIANT TextOneDeeper
INVARIANT IDump
CHECK_DEADLOCK FALSE
