SPECIFICATION GSpec
INVARIANT Accepted
INVARIANT LayoutInv
INVARIANT GDump
CHECK_DEADLOCK FALSE
