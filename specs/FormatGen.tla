------------------------------ MODULE FormatGen ------------------------------
(* C12 - input generator and content contract for the HTML formatter.        *)
(* AbbrTree's online generator with decorated elements: block and inline     *)
(* names, ids and classes (the comment triggers), single- and multi-line     *)
(* text, implicit names, self-closed elements.  The content contract is the  *)
(* pre-order listing [depth, name, id, classes, text lines, self-closed]:    *)
(* it is what every option row must print, in this order, whatever the white *)
(* space between tags.  The flag mlkids (an element with multi-line text     *)
(* that also has children) is exported for known finding F19.                *)
EXTENDS AbbrTree

CONSTANTS FormIdx
G(s, n, id, cls, text, sc, impl) == [s |-> s, n |-> n, id |-> id, cls |-> cls, text |-> text, sc |-> sc, impl |-> impl, attrs |-> <<>>]
Forms == <<
  G("div",        "div",     "",  <<>>,         <<>>,             FALSE, FALSE),
  G("p.c",        "p",       "",  <<"c">>,      <<>>,             FALSE, FALSE),
  G("ul#i",       "ul",      "i", <<>>,         <<>>,             FALSE, FALSE),
  G("section",    "section", "",  <<>>,         <<>>,             FALSE, FALSE),
  G("em",         "em",      "",  <<>>,         <<>>,             FALSE, FALSE),
  G("span.c.d",   "span",    "",  <<"c", "d">>, <<>>,             FALSE, FALSE),
  G("b#j",        "b",       "j", <<>>,         <<>>,             FALSE, FALSE),
  G("p{txt}",     "p",       "",  <<>>,         <<"txt">>,        FALSE, FALSE),
  G("em{t}",      "em",      "",  <<>>,         <<"t">>,          FALSE, FALSE),
  G("div{t\nq}",  "div",     "",  <<>>,         <<"t", "q">>,     FALSE, FALSE),
  G("em{t\nq\nr}", "em",     "",  <<>>,         <<"t", "q", "r">>, FALSE, FALSE),
  G(".c",         "?",       "",  <<"c">>,      <<>>,             FALSE, TRUE),
  G("br/",        "br",      "",  <<>>,         <<>>,             TRUE,  FALSE),
  G("x",          "x",       "",  <<>>,         <<>>,             FALSE, FALSE),
  G("body",       "body",    "",  <<>>,         <<>>,             FALSE, FALSE),
  [G("xsl:variable[name=n select=s]", "xsl:variable", "", <<>>, <<>>, FALSE, FALSE) EXCEPT !.attrs = <<<<"name", "n">>, <<"select", "s">>>>],
  [G("xsl:with-param[select=s]#k", "xsl:with-param", "k", <<>>, <<>>, FALSE, FALSE) EXCEPT !.attrs = <<<<"select", "s">>>>],
  [G("label#a[for=x]", "label", "a", <<>>, <<>>, FALSE, FALSE) EXCEPT !.attrs = <<<<"for", "x">>>>],          \* label + input: the label addon rewrites attribute lists
  [G("input[type=t]/", "input", "", <<>>, <<>>, TRUE, FALSE) EXCEPT !.attrs = <<<<"type", "t">>>>],
  G("div{${1}${2:tail}}", "div", "", <<>>, <<"tail">>, FALSE, FALSE),
  G("p{a ${1} b\nc}", "p", "", <<>>, <<"a  b", "c">>, FALSE, FALSE),
  G("p{a\n}", "p", "", <<>>, <<"a", "">>, FALSE, FALSE) >>                                                      \* 22: a text that ends in a line break                                        \* a field, then a line break, in one text                                         \* text made of two adjacent fields: children go to the first
FormKey(k) == "G" \o ToString(k)
KeyIdx(key) == CHOOSE k \in 1..Len(Forms) : FormKey(k) = key
GNext == \/ \E k \in FormIdx : Item(Forms[k].s, FormKey(k), Forms[k].sc)
         \/ Child \/ Sibling \/ Climb \/ GroupOpen \/ GroupClose \/ Repeat
GSpec == Init /\ [][GNext]_vars

RECURSIVE GResolve(_, _)
GParent(done, d) == IF d = 0 THEN "" ELSE LET idx == {j \in 1..Len(done) : done[j].d = d - 1} IN done[CHOOSE j \in idx : \A k \in idx : k <= j].n
GResolve(done, rest) == IF rest = <<>> THEN done
                        ELSE LET h == Head(rest) f == Forms[KeyIdx(h.n)]
                                 nm == IF f.impl THEN ImplName(GParent(done, h.d)) ELSE f.n
                             IN GResolve(Append(done, [d |-> h.d, n |-> nm, id |-> f.id, cls |-> f.cls, text |-> f.text, sc |-> f.sc, attrs |-> f.attrs]), Tail(rest))
Content == GResolve(<<>>, ContractListing)
\* an element with multi-line text and children (known finding F19)
MlKids == \E i \in 1..Len(nodes) : nodes[i].kind = "e" /\ Len(Forms[KeyIdx(nodes[i].name)].text) > 1 /\ \E j \in 1..Len(nodes) : nodes[j].parent = i
\* some element has multi-line text (its content is laid out on lines of its own whatever the options say)
MlText == \E i \in 1..Len(nodes) : nodes[i].kind = "e" /\ Len(Forms[KeyIdx(nodes[i].name)].text) > 1
\* an element whose text holds a field has children: they are spliced into the first field and the rest of the text follows them on
\* the line of the closing tag (known finding F35)
HasField(f) == \E k \in 1..(Len(f.s) - 1) : SubSeq(f.s, k, k + 1) = "${"
FieldKids == \E i \in 1..Len(nodes) : nodes[i].kind = "e" /\ HasField(Forms[KeyIdx(nodes[i].name)]) /\ \E j \in 1..Len(nodes) : nodes[j].parent = i
ContentInv == Complete => Len(Content) = Len(MachineListing)
GDump == Complete => PrintT(<<"VEC", ToJson([abbr |-> abbr, content |-> Content, mlkids |-> MlKids, mltext |-> MlText, fieldkids |-> FieldKids])>>)
=============================================================================
