------------------------------ MODULE AbbrText ------------------------------
(* C04, inline clause - text written in {...} becomes the element's content  *)
(* character for character.                                                  *)
(*                                                                           *)
(* Generator: the payload is built online from units - a plain character, a  *)
(*   nested "{" / "}" pair (kept balanced), or a backslash followed by any   *)
(*   character - over the punctuation alphabet of the abbreviation language. *)
(* Machine  : the tokenizer in expression context: an optional WhiteSpace    *)
(*   token, then literal(): escaped() consumes the backslash and takes the   *)
(*   next character, "{" and "}" move the nesting counter, a "}" at nesting  *)
(*   0 ends the text, "$" ends the literal.                                  *)
(* Contract : TextOf(payload) = the payload with every escaping backslash    *)
(*   removed; nothing else changes and nothing ends the text early.          *)
EXTENDS Common, Json

CONSTANTS MaxUnits, Plain, Esc

VARIABLES payload, depth, units
vars == <<payload, depth, units>>

Init == payload = "" /\ depth = 0 /\ units = 0

PlainUnit == /\ units < MaxUnits /\ \E c \in Plain : payload' = payload \o Ch(c)
             /\ units' = units + 1 /\ UNCHANGED depth
OpenUnit  == /\ units < MaxUnits - 1 /\ payload' = payload \o "{" /\ depth' = depth + 1 /\ units' = units + 1
CloseUnit == /\ depth > 0 /\ payload' = payload \o "}" /\ depth' = depth - 1 /\ units' = units + 1
EscUnit   == /\ units < MaxUnits /\ \E c \in Esc : payload' = payload \o "\\" \o Ch(c)
             /\ units' = units + 1 /\ UNCHANGED depth
Next == PlainUnit \/ OpenUnit \/ CloseUnit \/ EscUnit
Spec == Init /\ [][Next]_vars

Complete == depth = 0

(* --------------------------------------------------------------- contract *)
RECURSIVE TextOf(_)
TextOf(s) == IF s = "" THEN ""
             ELSE IF At(s, 1) = "\\" THEN At(s, 2) \o TextOf(SubSeq(s, 3, Len(s)))
             ELSE At(s, 1) \o TextOf(Tail(s))

(* ---------------------------------------------------------------- machine *)
(* position i is 1-based; result [v: collected value, p: position after the last consumed character, d: nesting] *)
RECURSIVE WsEnd(_)
WsEnd(i) == IF IsSpace(At(payload, i)) THEN WsEnd(i + 1) ELSE i
RECURSIVE Lit(_, _, _)
Lit(i, d, acc) ==
    IF i > Len(payload) THEN [v |-> acc, p |-> i, d |-> d]
    ELSE LET c == At(payload, i) IN
         IF c = "\\" THEN Lit(i + 2, d, acc \o At(payload, i + 1))       \* escaped(): at the very end nothing is appended
         ELSE IF c = "$" THEN [v |-> acc, p |-> i, d |-> d]
         ELSE IF c = "{" THEN Lit(i + 1, d + 1, acc \o c)
         ELSE IF c = "}" THEN (IF d > 0 THEN Lit(i + 1, d - 1, acc \o c) ELSE [v |-> acc, p |-> i, d |-> d])
         ELSE Lit(i + 1, d, acc \o c)
Machine == LET w == WsEnd(1)
               l == Lit(w, 0, "")
           IN [v |-> SubSeq(payload, 1, w - 1) \o l.v, p |-> l.p, d |-> l.d]

TextInv == Complete => /\ Machine.p = Len(payload) + 1       \* the whole payload is consumed: nothing ended the text early
                       /\ Machine.d = 0
                       /\ Machine.v = TextOf(payload)
\* an escaped character never changes the nesting: TextOf may be unbalanced although the payload is balanced
LengthInv == Complete => Len(TextOf(payload)) = Len(payload) - Cardinality({i \in 1..Len(payload) : At(payload, i) = "\\"
                                                     /\ (LET RECURSIVE Run(_) Run(j) == IF j >= 1 /\ At(payload, j) = "\\" THEN 1 + Run(j - 1) ELSE 0
                                                         IN Run(i) % 2 = 1)})

Dump == Complete => PrintT(<<"VEC", ToJson([p |-> payload, t |-> TextOf(payload)])>>)
=============================================================================
