SPECIFICATION Spec
INVARIANT MatchInv
INVARIANT OutwardInv
INVARIANT InwardInv
INVARIANT TruthInv
INVARIANT ScanInv
INVARIANT AttrInv
INVARIANT Dump
CHECK_DEADLOCK FALSE
