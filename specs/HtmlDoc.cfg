SPECIFICATION Spec
INVARIANT MatchInv
INVARIANT OutwardInv
INVARIANT InwardInv
INVARIANT TruthInv
INVARIANT Dump
CHECK_DEADLOCK FALSE
