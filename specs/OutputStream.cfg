SPECIFICATION Spec
INVARIANT Bookkeeping
INVARIANT CallbackExact
CHECK_DEADLOCK FALSE
