SPECIFICATION Spec
INVARIANT Tiling
INVARIANT Dump
CHECK_DEADLOCK FALSE
