SPECIFICATION Spec
INVARIANT OwnKey
INVARIANT NoOtherDirectHit
INVARIANT KeywordSelf
INVARIANT Dump
CHECK_DEADLOCK FALSE
