----------------------------- MODULE AbbrRepeat -----------------------------
(* C02 - repeaters make exactly N copies, number them as documented, and     *)
(* honour the maxRepeat budget.                                              *)
(*                                                                           *)
(* Phase "gen": online generator of abbreviations; every element carries one *)
(*   numbering form ($, $$$, $@3, $@-, $@-3 ...) in its name, a class, an    *)
(*   attribute value or its text; *N on elements and groups, nested.         *)
(* Phase "run": the converter's copy loop as an explicit work-stack machine, *)
(*   one action per step of convert_statement(): EnterNode (push repeater),  *)
(*   BeginCopy (set repeater value, emit element with the counter of the top *)
(*   repeater), NextKid, EndCopy (budget -1, stop when <= 0 or count reached)*)
(* Contracts: (a) unlimited budget: the listing is the plain unrolling with  *)
(*   Counter(i, N, base, rev) of the nearest enclosing repeated item, no     *)
(*   stack; (b) any budget: a functional definition threading the number of  *)
(*   completed copies in document order.                                     *)
EXTENDS Common, Json

CONSTANTS MaxTok, Names, Reps, Limits, MaxGroups, MaxReps, Places,
          FormIdx       \* which of the numbering forms below are generated (1 = no numbering)

Unlimited == 1000000
Forms == << [s |-> "",      size |-> 0, rev |-> FALSE, base |-> 1],
            [s |-> "$",     size |-> 1, rev |-> FALSE, base |-> 1],
            [s |-> "$$$",   size |-> 3, rev |-> FALSE, base |-> 1],
            [s |-> "$@3",   size |-> 1, rev |-> FALSE, base |-> 3],
            [s |-> "$@-",   size |-> 1, rev |-> TRUE,  base |-> 1],
            [s |-> "$$@-3", size |-> 2, rev |-> TRUE,  base |-> 3],
            [s |-> "$$@9",  size |-> 2, rev |-> FALSE, base |-> 9],
            [s |-> "$@0",   size |-> 1, rev |-> FALSE, base |-> 0],
            [s |-> "$@10",  size |-> 1, rev |-> FALSE, base |-> 10],
            [s |-> "$$$@-12", size |-> 3, rev |-> TRUE, base |-> 12] >>

VARIABLES abbr, ntok, nodes, frames, expect, last,                 \* generator
          phase, limit, work, out, guard, reps, completed, late    \* machine
gvars == <<abbr, ntok, nodes, frames, expect, last>>
mvars == <<phase, limit, work, out, guard, reps, completed, late>>
vars == <<gvars, mvars>>

Top(s) == s[Len(s)]
SetTop(s, v) == [s EXCEPT ![Len(s)] = v]
Pop(s) == SubSeq(s, 1, Len(s) - 1)

Init == /\ abbr = "" /\ ntok = 0 /\ nodes = <<>> /\ frames = << [ctx |-> 0, stack |-> <<>>, g |-> 0] >> /\ expect = "item" /\ last = 0
        /\ phase = "gen" /\ limit = 0 /\ work = <<>> /\ out = <<>> /\ guard = 0 /\ reps = <<>> /\ completed = 0 /\ late = FALSE

(* ------------------------------------------------------------- generator *)
Tok(t) == abbr' = abbr \o t /\ ntok' = ntok + 1
ItemText(nm, f, pl) == CASE f = 1 -> nm
                         [] pl = "name"  -> nm \o Forms[f].s
                         [] pl = "class" -> nm \o ".c" \o Forms[f].s
                         [] pl = "attr"  -> nm \o "[t=v" \o Forms[f].s \o "]"
                         [] pl = "text"  -> nm \o "{t" \o Forms[f].s \o "}"
                         [] pl = "id"    -> nm \o "#j" \o Forms[f].s
Item == /\ phase = "gen" /\ expect \in {"item", "climbed"} /\ ntok < MaxTok
        /\ \E nm \in Names, f \in FormIdx, pl \in Places :
              /\ (f = 1 => pl = CHOOSE q \in Places : TRUE)
              /\ Tok(ItemText(nm, f, pl))
              /\ nodes' = Append(nodes, [parent |-> Top(frames).ctx, kind |-> "e", name |-> nm, rep |-> 0, form |-> f, place |-> pl])
        /\ last' = Len(nodes) + 1 /\ expect' = "op"
        /\ UNCHANGED <<frames, mvars>>
Child == /\ phase = "gen" /\ expect = "op" /\ last # 0 /\ nodes[last].kind = "e" /\ ntok < MaxTok - 1
         /\ Tok(">")
         /\ frames' = SetTop(frames, [Top(frames) EXCEPT !.ctx = last, !.stack = Append(@, Top(frames).ctx)])
         /\ expect' = "item" /\ UNCHANGED <<nodes, last, mvars>>
Sibling == /\ phase = "gen" /\ expect = "op" /\ ntok < MaxTok - 1
           /\ Tok("+") /\ expect' = "item" /\ UNCHANGED <<nodes, frames, last, mvars>>
Climb == /\ phase = "gen" /\ expect \in {"op", "climbed"} /\ ntok < MaxTok - 1
         /\ Tok("^")
         /\ frames' = IF Top(frames).stack = <<>> THEN frames
                      ELSE SetTop(frames, [Top(frames) EXCEPT !.ctx = Top(Top(frames).stack), !.stack = Pop(@)])
         /\ expect' = "climbed" /\ UNCHANGED <<nodes, last, mvars>>
GroupOpen == /\ phase = "gen" /\ expect \in {"item", "climbed"} /\ ntok < MaxTok - 2 /\ Len(frames) <= MaxGroups
             /\ Tok("(")
             /\ nodes' = Append(nodes, [parent |-> Top(frames).ctx, kind |-> "g", name |-> "", rep |-> 0, form |-> 1, place |-> "name"])
             /\ frames' = Append(frames, [ctx |-> Len(nodes) + 1, stack |-> <<>>, g |-> Len(nodes) + 1])
             /\ expect' = "item" /\ last' = 0 /\ UNCHANGED mvars
GroupClose == /\ phase = "gen" /\ expect \in {"op", "climbed"} /\ Len(frames) > 1
              /\ Tok(")")
              /\ last' = Top(frames).g      \* the group node that opened this activation
              /\ frames' = Pop(frames) /\ expect' = "op" /\ UNCHANGED <<nodes, mvars>>
Repeat == /\ phase = "gen" /\ expect = "op" /\ last # 0 /\ nodes[last].rep = 0
          /\ Cardinality({i \in 1..Len(nodes) : nodes[i].rep > 0}) < MaxReps
          /\ \E n \in Reps : Tok("*" \o ToString(n)) /\ nodes' = [nodes EXCEPT ![last].rep = n]
          /\ UNCHANGED <<frames, last, expect, mvars>>
Complete == expect \in {"op", "climbed"} /\ Len(frames) = 1 /\ Len(nodes) > 0

(* --------------------------------------------------------------- machine *)
Kids(n) == SelectSeq([i \in 1..Len(nodes) |-> i], LAMBDA i : nodes[i].parent = n)

\* RepeaterNumber: the counter of the TOP repeater, 1 when there is none; padded with zeros to the width of the $-run
RECURSIVE NumLen(_)
NumLen(v) == IF v < 10 THEN 1 ELSE 1 + NumLen(v \div 10)
Pad(v, w) == RepeatStr("0", w - NumLen(v)) \o ToString(v)
CounterOfTop(f, rs) == IF rs = <<>> THEN 1
                       ELSE LET r == Top(rs) IN
                            IF Forms[f].rev THEN Forms[f].base + r.count - r.value - 1 ELSE Forms[f].base + r.value
Entry(n, d, v) == LET nd == nodes[n] f == nd.form
                      num == IF f = 1 THEN "" ELSE Pad(v, Forms[f].size)
                  IN [d |-> d, n |-> IF nd.place = "name" THEN nd.name \o num ELSE nd.name,
                      pl |-> IF f = 1 THEN "none" ELSE nd.place, v |-> IF nd.place = "name" THEN "" ELSE num, id |-> n]

Start == /\ phase = "gen" /\ Complete
         /\ \E m \in Limits :
              /\ limit' = m /\ guard' = IF m = 0 THEN Unlimited ELSE m
         /\ phase' = "run" /\ work' = << [n |-> 0, st |-> "kids", i |-> 0, k |-> 1, d |-> 0] >>
         /\ out' = <<>> /\ reps' = <<>> /\ completed' = 0 /\ late' = FALSE
         /\ UNCHANGED gvars
W == Top(work)
Repeated(n) == n # 0 /\ nodes[n].rep > 0
EnterNode == /\ phase = "run" /\ work # <<>> /\ W.st = "enter"
             /\ reps' = IF Repeated(W.n) THEN Append(reps, [count |-> nodes[W.n].rep, value |-> 0]) ELSE reps
             /\ work' = SetTop(work, [W EXCEPT !.st = "copy", !.i = 0])
             /\ UNCHANGED <<gvars, phase, limit, out, guard, completed, late>>
BeginCopy == /\ phase = "run" /\ work # <<>> /\ W.st = "copy"
             /\ LET rs == IF Repeated(W.n) THEN SetTop(reps, [Top(reps) EXCEPT !.value = W.i]) ELSE reps IN
                /\ reps' = rs
                /\ out' = IF nodes[W.n].kind = "e" THEN Append(out, Entry(W.n, W.d, CounterOfTop(nodes[W.n].form, rs))) ELSE out
             /\ late' = (late \/ (Repeated(W.n) /\ W.i >= 1 /\ limit > 0 /\ completed >= limit))
             /\ work' = SetTop(work, [W EXCEPT !.st = "kids", !.k = 1])
             /\ UNCHANGED <<gvars, phase, limit, guard, completed>>
NextKid == /\ phase = "run" /\ work # <<>> /\ W.st = "kids" /\ W.k <= Len(Kids(W.n))
           /\ work' = Append(SetTop(work, [W EXCEPT !.k = @ + 1]),
                             [n |-> Kids(W.n)[W.k], st |-> "enter", i |-> 0, k |-> 1,
                              d |-> IF W.n # 0 /\ nodes[W.n].kind = "e" THEN W.d + 1 ELSE W.d])
           /\ UNCHANGED <<gvars, phase, limit, out, guard, reps, completed, late>>
EndCopy == /\ phase = "run" /\ work # <<>> /\ W.st = "kids" /\ W.k > Len(Kids(W.n))
           /\ IF W.n = 0 THEN /\ work' = <<>> /\ phase' = "done" /\ UNCHANGED <<guard, completed, reps>>
              ELSE IF ~Repeated(W.n) THEN /\ work' = Pop(work) /\ UNCHANGED <<phase, guard, completed, reps>>
              ELSE /\ guard' = guard - 1 /\ completed' = completed + 1
                   /\ IF guard - 1 <= 0 \/ W.i + 1 >= nodes[W.n].rep
                      THEN work' = Pop(work) /\ reps' = Pop(reps)                          \* leave the repeater
                      ELSE work' = SetTop(work, [W EXCEPT !.st = "copy", !.i = @ + 1]) /\ reps' = reps
                   /\ UNCHANGED phase
           /\ UNCHANGED <<gvars, limit, out, late>>

Next == Item \/ Child \/ Sibling \/ Climb \/ GroupOpen \/ GroupClose \/ Repeat \/ Start
        \/ EnterNode \/ BeginCopy \/ NextKid \/ EndCopy
Spec == Init /\ [][Next]_vars

(* ------------------------------------- contract (a): unlimited, no stack *)
Counter(i, N, base, rev) == IF rev THEN base + N - i ELSE base + i - 1          \* copy i of N, 1-based
RECURSIVE UOnce(_, _, _), UStmt(_, _, _), UKids(_, _, _, _), UCopies(_, _, _, _)
\* c = [has, i, N]: the nearest enclosing repeated item and the copy we are in
UOnce(n, d, c) == LET nd == nodes[n]
                      v == IF c.has THEN Counter(c.i, c.N, Forms[nd.form].base, Forms[nd.form].rev) ELSE 1
                  IN IF nd.kind = "e" THEN <<Entry(n, d, v)>> \o UKids(Kids(n), 1, d + 1, c) ELSE UKids(Kids(n), 1, d, c)
UCopies(n, d, i, N) == IF i > N THEN <<>> ELSE UOnce(n, d, [has |-> TRUE, i |-> i, N |-> N]) \o UCopies(n, d, i + 1, N)
UStmt(n, d, c) == IF nodes[n].rep > 0 THEN UCopies(n, d, 1, nodes[n].rep) ELSE UOnce(n, d, c)
UKids(k, j, d, c) == IF j > Len(k) THEN <<>> ELSE UStmt(k[j], d, c) \o UKids(k, j + 1, d, c)
Unrolled == UKids(Kids(0), 1, 0, [has |-> FALSE, i |-> 0, N |-> 0])

(* ------------- contract (b): completed copies threaded in document order *)
RECURSIVE FOnce(_, _, _, _), FStmt(_, _, _, _), FKids(_, _, _, _, _), FLoop(_, _, _, _, _)
FOnce(n, d, c, done) == LET nd == nodes[n]
                            v == IF c.has THEN Counter(c.i, c.N, Forms[nd.form].base, Forms[nd.form].rev) ELSE 1
                            ks == FKids(Kids(n), 1, IF nd.kind = "e" THEN d + 1 ELSE d, c, done)
                        IN IF nd.kind = "e" THEN [o |-> <<Entry(n, d, v)>> \o ks.o, done |-> ks.done] ELSE ks
FLoop(n, d, i, N, done) == LET r == FOnce(n, d, [has |-> TRUE, i |-> i, N |-> N], done)
                               dn == r.done + 1                  \* this copy is now completed
                           IN IF i >= N \/ (limit > 0 /\ dn >= limit) THEN [o |-> r.o, done |-> dn]
                              ELSE LET rest == FLoop(n, d, i + 1, N, dn) IN [o |-> r.o \o rest.o, done |-> rest.done]
FStmt(n, d, c, done) == IF nodes[n].rep > 0 THEN FLoop(n, d, 1, nodes[n].rep, done) ELSE FOnce(n, d, c, done)
FKids(k, j, d, c, done) == IF j > Len(k) THEN [o |-> <<>>, done |-> done]
                           ELSE LET a == FStmt(k[j], d, c, done)
                                    b == FKids(k, j + 1, d, c, a.done)
                                IN [o |-> a.o \o b.o, done |-> b.done]
Limited == FKids(Kids(0), 1, 0, [has |-> FALSE, i |-> 0, N |-> 0], 0)

(* ------------------------------------------------------------ properties *)
Done == phase = "done"
I1_UnlimitedIsUnrolling == (Done /\ limit = 0) => out = Unrolled
I1b_MachineIsContract == Done => out = Limited.o /\ completed = Limited.done
I2_Budget == (phase \in {"run", "done"} /\ limit > 0) => guard = limit - completed
I3_NoLateCopy == ~late          \* once `limit` copies are completed no repeater begins a second or later copy
Count(lst, i) == Cardinality({j \in 1..Len(lst) : lst[j].id = i})
I4_AtLeastOnce == Done => \A i \in 1..Len(nodes) : nodes[i].kind = "e" => Count(out, i) >= 1
I5_Pad == \A v \in {0, 1, 9, 10, 99, 100}, w \in 1..3 : Len(Pad(v, w)) = Max(w, NumLen(v))
StackDiscipline == phase = "run" => Len(reps) = Cardinality({j \in 1..Len(work) : Repeated(work[j].n) /\ work[j].st # "enter"})

HasRev == \E i \in 1..Len(nodes) : Forms[nodes[i].form].rev
Dump == Done => PrintT(<<"VEC", ToJson([abbr |-> abbr, limit |-> limit,
                                          out |-> [j \in 1..Len(out) |-> [d |-> out[j].d, n |-> out[j].n, pl |-> out[j].pl, v |-> out[j].v]],
                                          truncated |-> (limit > 0 /\ Len(out) # Len(Unrolled)), rev |-> HasRev])>>)
=============================================================================
