---------------------------- MODULE Trace_Tiling ----------------------------
(* C18 - tokenizers are lossless: validation of recorded token lists.        *)
(* A trace is one call of a tokenizer on one input; an event is one token    *)
(* [t (type), s (start, -1 when undefined), e (end, -1 when undefined)].     *)
(* The tiling machine has one variable, the position up to which the input   *)
(* is covered; token k is accepted iff it starts exactly there and is not    *)
(* empty.  A run that raised the scanner error must report a position        *)
(* inside the input.                                                         *)
EXTENDS Common, Json, IOUtils

Traces == ndJsonDeserialize(IOEnv.TRACE_FILE)
VARIABLES tid, l, cur, ok
vars == <<tid, l, cur, ok>>
Tr == Traces[tid]
Ev == Tr.toks

Init == tid \in 1..Len(Traces) /\ l = 1 /\ cur = 0 /\ ok = "ok"

Judge(tk) == IF tk.s < 0 \/ tk.e < 0 THEN "span-undefined"
             ELSE IF tk.s # cur THEN (IF tk.s > cur THEN "gap" ELSE "overlap")
             ELSE IF tk.e <= tk.s THEN "empty-token"
             ELSE IF tk.e > Tr.len THEN "past-end"
             ELSE "ok"
Token == /\ Tr.kind = "tokens" /\ l <= Len(Ev) /\ ok = "ok"
         /\ ok' = Judge(Ev[l])
         /\ cur' = Ev[l].e
         /\ l' = l + 1 /\ UNCHANGED tid
Next == Token
Spec == Init /\ [][Next]_vars

Verdict ==
    /\ (ok # "ok" => PrintT(<<"REJECT", Tr.tid, l - 1, ok>>))
    /\ ((ok = "ok" /\ Tr.kind = "tokens" /\ l = Len(Ev) + 1) =>
            IF cur = Tr.len THEN PrintT(<<"ACCEPT", Tr.tid>>) ELSE PrintT(<<"REJECT", Tr.tid, 0, "not-covered-to-the-end">>))
    /\ ((ok = "ok" /\ Tr.kind = "error") =>
            IF Tr.pos >= 0 /\ Tr.pos <= Tr.len THEN PrintT(<<"ACCEPT", Tr.tid>>) ELSE PrintT(<<"REJECT", Tr.tid, 0, "error-position">>))
    /\ ((ok = "ok" /\ Tr.kind = "other") => PrintT(<<"REJECT", Tr.tid, 0, "not-the-scanner-error">>))
=============================================================================
