SPECIFICATION Spec
INVARIANT ScanRanges
INVARIANT SplitRanges
INVARIANT ResultRanges
INVARIANT Dump
CHECK_DEADLOCK FALSE
