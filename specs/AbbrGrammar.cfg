SPECIFICATION GSpec
INVARIANT Accepted
INVARIANT Tiling
INVARIANT TreeFacts
INVARIANT GDump
CHECK_DEADLOCK FALSE
