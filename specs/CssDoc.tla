------------------------------- MODULE CssDoc -------------------------------
(* C10 (and ground truth for C17) - CSS matcher.                             *)
(*                                                                           *)
(* Generator: stylesheets built online from segments - selector + "{"        *)
(*   (plain, pseudo-class, pseudo-element, attribute selector with a brace   *)
(*   in a string, at-rule with a parenthesised colon), declaration           *)
(*   "name: value;" (values with strings containing ; { } :, url(a:b),       *)
(*   custom property, SCSS variable; tight and loose punctuation), "}",      *)
(*   comments containing delimiters, blanks; several top-level rules,        *)
(*   nesting.  Ground truth per node: rule [s, brace, cb, e], declaration    *)
(*   [s, ne (name end), colon, vs, ve, semi, e]; and the scan events.        *)
(* Machine  : match() and balanced_outward() as the code's stack /           *)
(*   pending-property machines over the scan events.                         *)
(* Contract : on the truth table only (strict containment + depth).          *)
EXTENDS Common, Json, CssScan

CONSTANTS MaxSeg, MaxDepth, SelIdx, ValIdx, NameIdx, Fillers, Loose, SemiInParens,
          NoSemi       \* also generate a last declaration that is terminated by the end of the body (C17 only)

Sels == <<"a", "a:hover", "@media (min-width: 10px)", "a::before", "b[x=\"{\"]", ".c > d", "e[t='a\"{']", "a:not([t=\"}\"])", "a, b", "&:hover", "a ~ b > c", "d/* { ; */ e", ":root", ":host(.x) :b", "@media (a /* :) */)">>     \* 15: a comment inside parentheses that holds a bracket  \* 12: a comment glued to the words of a selector; 13, 14: a selector that starts with a colon
Names == <<"color", "--v", "$v", "margin", "-webkit-x">>
Vals == <<"red", "\"x;y\"", "url(a:b)", "1px  solid", "'{}'", "calc(1px + (2px))", "\"it's }\"", "'a\"{b;'", "url(\"x;y\")", "f(\")\", '(')", "50%", "10% 20%", "\"a\\\"b;\"", "red !important", "1px/* ; } */ 2px", "f(1 /* ( ' */ )">>     \* 16: a comment inside parentheses that holds a bracket and a quote  \* 7, 8: a string holding the other kind of quote
BadVal == "f(c;d)"        \* a semicolon inside parentheses: known finding F16, generated only when SemiInParens
BadVal2 == "calc(1px - #{$x})"   \* braces inside parentheses (SCSS interpolation): known finding F50, generated only when SemiInParens; hasF16 is set for both

VARIABLES doc, nodes, evs, open, nseg, hasF16
vars == <<doc, nodes, evs, open, nseg, hasF16>>
(* nodes[i]: [k "r"|"d", s, brace, cb, e, ne, colon, vs, ve, semi, d, parent]   (cb = e = -1 while a rule is open)
   evs[j]  : [t "selector"|"propertyName"|"propertyValue"|"blockEnd", s, e, dl] *)

Init == doc = "" /\ nodes = <<>> /\ evs = <<>> /\ open = <<>> /\ nseg = 0 /\ hasF16 = FALSE
Step == nseg < MaxSeg /\ nseg' = nseg + 1
L == Len(doc)
Node(k, s, brace, cb, e, ne, colon, vs, ve, semi) ==
    [k |-> k, s |-> s, brace |-> brace, cb |-> cb, e |-> e, ne |-> ne, colon |-> colon, vs |-> vs, ve |-> ve, semi |-> semi,
     d |-> Len(open), parent |-> IF open = <<>> THEN 0 ELSE Last(open), ns |-> FALSE]
Ev(t, s, e, dl) == [t |-> t, s |-> s, e |-> e, dl |-> dl]

OpenRule == /\ Step /\ Len(open) < MaxDepth
            /\ \E si \in SelIdx, sp \in (IF Loose THEN {"", " "} ELSE {""}) :
                 LET sel == Sels[si] IN
                 /\ doc' = doc \o sel \o sp \o "{"
                 /\ nodes' = Append(nodes, Node("r", L, L + Len(sel) + Len(sp), -1, -1, 0, 0, 0, 0, 0))
                 /\ evs' = Append(evs, Ev("selector", L, L + Len(sel), L + Len(sel) + Len(sp)))
                 /\ open' = Append(open, Len(nodes) + 1)
            /\ UNCHANGED hasF16
CloseRule == /\ Step /\ open # <<>>
             /\ doc' = doc \o "}"
             /\ nodes' = [nodes EXCEPT ![Last(open)].cb = L, ![Last(open)].e = L + 1]
             /\ evs' = Append(evs, Ev("blockEnd", L, L + 1, L))
             /\ open' = Front(open) /\ UNCHANGED hasF16
Decl == /\ Step
        /\ \E ni \in NameIdx, v \in {Vals[i] : i \in ValIdx} \cup (IF SemiInParens THEN {BadVal, BadVal2} ELSE {}), loose \in (IF Loose THEN BOOLEAN ELSE {FALSE}) :
             LET nm == Names[ni]
                 c1 == IF loose THEN " : " ELSE ":"
                 c2 == IF loose THEN " ;" ELSE ";"
                 ne == L + Len(nm)
                 colon == ne + (IF loose THEN 1 ELSE 0)
                 vs == L + Len(nm) + Len(c1)
                 ve == vs + Len(v)
                 semi == ve + Len(c2) - 1
             IN /\ doc' = doc \o nm \o c1 \o v \o c2
                /\ nodes' = Append(nodes, Node("d", L, 0, 0, semi + 1, ne, colon, vs, ve, semi))
                /\ evs' = evs \o <<Ev("propertyName", L, ne, colon), Ev("propertyValue", vs, ve, semi)>>
                /\ hasF16' = (hasF16 \/ v \in {BadVal, BadVal2})
        /\ UNCHANGED open
(* a declaration without semicolon, closed by the "}" of its rule (one step: it must be the last thing in the body) *)
DeclClose == /\ NoSemi /\ Step /\ open # <<>>
             /\ \E ni \in NameIdx, vi \in ValIdx :
                  LET nm == Names[ni] v == Vals[vi]
                      ne == L + Len(nm)
                      vs == ne + 1
                      ve == vs + Len(v)
                  IN /\ doc' = doc \o nm \o ":" \o v \o "}"
                     /\ nodes' = [Append(nodes, [Node("d", L, 0, 0, ve, ne, ne, vs, ve, ve) EXCEPT !.ns = TRUE])
                                   EXCEPT ![Last(open)].cb = ve, ![Last(open)].e = ve + 1]
                     /\ evs' = evs \o <<Ev("propertyName", L, ne, ne), Ev("propertyValue", vs, ve, ve), Ev("blockEnd", ve, ve + 1, ve)>>
             /\ open' = Front(open) /\ UNCHANGED hasF16
Filler == Step /\ (\E t \in Fillers : doc' = doc \o (IF t = "NL" THEN "\n  " ELSE IF t = "C2" THEN "/** x } **/" ELSE IF t = "C3" THEN "/***/"
                                                      ELSE IF t = "C4" THEN "/* a\n{ b: c; }\n*/" ELSE IF t = "CRLF" THEN "\r\n  " ELSE t)) /\ UNCHANGED <<nodes, evs, open, hasF16>>
Next == OpenRule \/ CloseRule \/ Decl \/ DeclClose \/ Filler
Spec == Init /\ [][Next]_vars
Complete == open = <<>> /\ nseg > 0

(* the character-level scanner (CssScan.tla, transcribed from css_matcher/scan.py) reads every generated stylesheet back to
   exactly the recorded events: scanner machine = generator's truth (not where a value holds the semicolon of finding F16) *)
ScanInv == (Complete /\ ~hasF16) => LET got == CScan(doc) IN
              /\ Len(got) = Len(evs)
              /\ \A k \in 1..Len(evs) : got[k].t = evs[k].t /\ got[k].s = evs[k].s /\ got[k].e = evs[k].e /\ got[k].d = evs[k].dl

(* --------------------------------------------------------------- contract *)
Ch0(i) == SubSeq(doc, i + 1, i + 1)
RECURSIVE TrimL(_, _), TrimR(_, _)
TrimL(a, b) == IF a < b /\ IsSpace(Ch0(a)) THEN TrimL(a + 1, b) ELSE a
TrimR(a, b) == IF b > a /\ IsSpace(Ch0(b - 1)) THEN TrimR(a, b - 1) ELSE b
Inner(a, b) == LET a2 == TrimL(a, b) b2 == TrimR(a2, b) IN <<a2, b2>>
Encl(pos) == {i \in 1..Len(nodes) : nodes[i].s < pos /\ pos < nodes[i].e}
Deepest(S) == CHOOSE i \in S : \A j \in S : nodes[j].d <= nodes[i].d
NoMatch == <<"none", 0, 0, 0, 0>>
CMatch(pos) == LET E == Encl(pos) IN
               IF E = {} THEN NoMatch
               ELSE LET n == nodes[Deepest(E)] IN
                    IF n.k = "d" THEN <<"property", n.s, n.e, n.vs, n.ve>> ELSE <<"selector", n.s, n.e, n.brace + 1, n.cb>>
Push(acc, r) == IF r[1] = r[2] \/ (acc # <<>> /\ Last(acc) = r) THEN acc ELSE Append(acc, r)
RECURSIVE COut(_, _)
COut(E, acc) == IF E = {} THEN acc
                ELSE LET i == Deepest(E) n == nodes[i] IN
                     IF n.k = "d" THEN COut(E \ {i}, Push(Push(acc, <<n.vs, n.ve>>), <<n.s, n.e>>))
                     ELSE COut(E \ {i}, Push(Push(acc, Inner(n.brace + 1, n.cb)), <<n.s, n.e>>))
COutward(pos) == COut(Encl(pos), <<>>)
(* balanced_inward: a declaration is hit between its name and the end of its value (closed); otherwise the first rule in
   closing order that contains the position (closed), followed by the chain of first children - each child with its full
   range and its content (rule: trimmed body, declaration: trimmed text after the colon) *)
FirstKid(i) == LET K == {j \in 1..Len(nodes) : nodes[j].parent = i} IN IF K = {} THEN 0 ELSE CHOOSE j \in K : \A k \in K : j <= k
RECURSIVE KidChain(_, _)
KidChain(i, acc) == IF nodes[i].k = "d" \/ FirstKid(i) = 0 THEN acc
                    ELSE LET c == FirstKid(i) n == nodes[c] IN
                         KidChain(c, Push(Push(acc, <<n.s, n.e>>),
                                          IF n.k = "r" THEN Inner(n.brace + 1, n.cb) ELSE Inner(n.colon + 1, n.e - 1)))
DeclHit(pos) == {i \in 1..Len(nodes) : nodes[i].k = "d" /\ nodes[i].s <= pos /\ pos <= nodes[i].ve}
RuleHit(pos) == {i \in 1..Len(nodes) : nodes[i].k = "r" /\ nodes[i].s <= pos /\ pos <= nodes[i].e}
FirstByEnd(S) == CHOOSE i \in S : \A j \in S : nodes[i].e <= nodes[j].e
CInward(pos) == LET D == DeclHit(pos) R == RuleHit(pos) IN
                IF D # {} /\ (R = {} \/ nodes[FirstByEnd(D)].e <= nodes[FirstByEnd(R)].e)
                THEN LET n == nodes[FirstByEnd(D)] IN Push(Push(<<>>, <<n.s, n.e>>), <<n.vs, n.ve>>)
                ELSE IF R = {} THEN <<>>
                ELSE LET r == FirstByEnd(R) n == nodes[r] IN KidChain(r, Push(Push(<<>>, <<n.s, n.e>>), Inner(n.brace + 1, n.cb)))
\* inward is only asserted where the position is not in the gap between a value and its semicolon (statement silent)
InwardSilent(pos) == \E i \in 1..Len(nodes) : nodes[i].k = "d" /\ nodes[i].ve < pos /\ pos <= nodes[i].e

(* ---------------------------------------------------------------- machine *)
RECURSIVE MMatch(_, _, _, _)
MMatch(i, stack, pending, pos) ==       \* stack of [s, dl]; pending = <<>> or <<[s, dl]>>
    IF i > Len(evs) THEN NoMatch
    ELSE LET ev == evs[i] IN
         IF ev.t = "selector" THEN MMatch(i + 1, Append(stack, [s |-> ev.s, dl |-> ev.dl]), <<>>, pos)
         ELSE IF ev.t = "blockEnd"
              THEN IF stack # <<>> /\ Last(stack).s < pos /\ pos < ev.e
                   THEN <<"selector", Last(stack).s, ev.e, Last(stack).dl + 1, ev.s>>
                   ELSE MMatch(i + 1, IF stack = <<>> THEN stack ELSE Front(stack), <<>>, pos)
         ELSE IF ev.t = "propertyName" THEN MMatch(i + 1, stack, <<[s |-> ev.s, dl |-> ev.dl]>>, pos)
         ELSE IF pending # <<>> /\ pending[1].s < pos /\ pos < Max(ev.dl + 1, ev.e)
              THEN <<"property", pending[1].s, ev.dl + 1, ev.s, ev.e>>
              ELSE MMatch(i + 1, stack, <<>>, pos)
RECURSIVE MOut(_, _, _, _, _)
MOut(i, stack, prop, pos, acc) ==
    IF i > Len(evs) THEN acc
    ELSE LET ev == evs[i] IN
         IF ev.t = "selector" THEN MOut(i + 1, Append(stack, [s |-> ev.s, dl |-> ev.dl]), <<>>, pos, acc)
         ELSE IF ev.t = "blockEnd"
              THEN LET hit == stack # <<>> /\ Last(stack).s < pos /\ pos < ev.e
                       acc2 == IF hit THEN Push(Push(acc, Inner(Last(stack).dl + 1, ev.s)), <<Last(stack).s, ev.e>>) ELSE acc
                       st2 == IF stack = <<>> THEN stack ELSE Front(stack)
                   IN IF st2 = <<>> /\ acc2 # <<>> THEN acc2 ELSE MOut(i + 1, st2, <<>>, pos, acc2)
         ELSE IF ev.t = "propertyName" THEN MOut(i + 1, stack, <<[s |-> ev.s, dl |-> ev.dl]>>, pos, acc)
         ELSE MOut(i + 1, stack, <<>>, pos,
                   IF prop # <<>> /\ prop[1].s < pos /\ pos < Max(ev.dl + 1, ev.e)
                   THEN Push(Push(acc, <<ev.s, ev.e>>), <<prop[1].s, IF ev.dl # -1 THEN ev.dl + 1 ELSE ev.e>>) ELSE acc)

Positions == 0..Len(doc)
MatchInv == Complete => \A pos \in Positions : MMatch(1, <<>>, <<>>, pos) = CMatch(pos)
OutwardInv == Complete => \A pos \in Positions : MOut(1, <<>>, <<>>, pos, <<>>) = COutward(pos)
TruthInv == \A i \in 1..Len(nodes) : IF nodes[i].k = "r" THEN Ch0(nodes[i].brace) = "{" /\ (nodes[i].cb # -1 => Ch0(nodes[i].cb) = "}")
                                     ELSE Ch0(nodes[i].colon) = ":" /\ (IF nodes[i].ns THEN Ch0(nodes[i].ve) = "}" /\ nodes[i].e = nodes[i].ve
                                                                           ELSE Ch0(nodes[i].semi) = ";" /\ nodes[i].e = nodes[i].semi + 1)

(* ------------------------------------------- editor action helpers (C17) *)
SelEnd(i) == LET ev == CHOOSE e \in {evs[j] : j \in 1..Len(evs)} : e.t = "selector" /\ e.s = nodes[i].s IN ev.e      \* end of the selector text
SectionAt(pos) == LET R == {i \in 1..Len(nodes) : nodes[i].k = "r" /\ nodes[i].s <= pos /\ pos <= nodes[i].e} IN
                  IF R = {} THEN 0 ELSE FirstByEnd(R)
\* pieces of a value separated by blanks, outside quotes and parentheses
RECURSIVE VTok(_, _, _, _, _, _)
VTok(a, b, start, q, par, acc) ==
    IF a >= b THEN (IF start = -1 THEN acc ELSE Append(acc, <<start, b>>))
    ELSE LET c == Ch0(a) IN
         IF q # "" THEN VTok(a + 1, b, start, IF c = q THEN "" ELSE q, par, acc)
         ELSE IF c \in {"\"", "'"} THEN VTok(a + 1, b, IF start = -1 THEN a ELSE start, c, par, acc)
         ELSE IF c = "(" THEN VTok(a + 1, b, IF start = -1 THEN a ELSE start, q, par + 1, acc)
         ELSE IF c = ")" THEN VTok(a + 1, b, IF start = -1 THEN a ELSE start, q, par - 1, acc)
         ELSE IF IsSpace(c) /\ par = 0 THEN VTok(a + 1, b, -1, q, par, IF start = -1 THEN acc ELSE Append(acc, <<start, a>>))
         ELSE VTok(a + 1, b, IF start = -1 THEN a ELSE start, q, par, acc)
ValueTokens(i) == VTok(nodes[i].vs, nodes[i].ve, -1, "", 0, <<>>)
KidsOf(r) == SelectSeq([j \in 1..Len(nodes) |-> j], LAMBDA j : nodes[j].parent = r)
RECURSIVE PropsOf(_, _, _, _)
PropsOf(ks, j, before, acc) ==
    IF j > Len(ks) THEN acc
    ELSE LET n == nodes[ks[j]] IN
         IF n.k = "r" THEN PropsOf(ks, j + 1, n.e, acc)
         ELSE PropsOf(ks, j + 1, n.e, Append(acc, [name |-> <<n.s, n.ne>>, value |-> <<n.vs, n.ve>>, tokens |-> ValueTokens(ks[j]),
                                                    before |-> before, after |-> n.e]))
Props(r) == PropsOf(KidsOf(r), 1, nodes[r].brace + 1, <<>>)
RECURSIVE PushAllC(_, _)
PushAllC(acc, rs) == IF rs = <<>> THEN acc ELSE PushAllC(Push(acc, Head(rs)), Tail(rs))
ItemRanges(i) == IF nodes[i].k = "r" THEN << <<nodes[i].s, SelEnd(i)>> >>
                 ELSE PushAllC(Push(Push(<<>>, <<nodes[i].s, nodes[i].e>>), <<nodes[i].vs, nodes[i].ve>>), ValueTokens(i))
ItemSpan(i) == IF nodes[i].k = "r" THEN <<nodes[i].s, SelEnd(i)>> ELSE <<nodes[i].s, nodes[i].e>>
NextItem(pos) == LET S == {i \in 1..Len(nodes) : nodes[i].s >= pos} IN IF S = {} THEN 0 ELSE CHOOSE i \in S : \A j \in S : i <= j
PrevItem(pos) == LET S == {i \in 1..Len(nodes) : nodes[i].s < pos} IN IF S = {} THEN 0 ELSE CHOOSE i \in S : \A j \in S : j <= i
\* next is not asserted strictly inside a declaration head (after the name start, up to the value start)
NextSilent(pos) == \E i \in 1..Len(nodes) : nodes[i].k = "d" /\ nodes[i].s < pos /\ pos <= nodes[i].vs
ItemInv == \A i \in 1..Len(nodes) : LET rs == ItemRanges(i) IN
              \A k \in 1..Len(rs) : rs[k][1] < rs[k][2] /\ ItemSpan(i)[1] <= rs[k][1] /\ rs[k][2] <= ItemSpan(i)[2] /\ (k > 1 => rs[k] # rs[k - 1])
PropsInv == \A r \in 1..Len(nodes) : (nodes[r].k = "r" /\ nodes[r].e # -1) =>
               LET ps == Props(r) IN \A k \in 1..Len(ps) :
                  /\ nodes[r].brace < ps[k].before /\ ps[k].before <= ps[k].name[1] /\ ps[k].name[2] <= ps[k].value[1]
                  /\ ps[k].value[2] <= ps[k].after /\ ps[k].after <= nodes[r].cb
                  /\ (k > 1 => ps[k - 1].after <= ps[k].before)
DumpActions == Complete => PrintT(<<"VEC", ToJson([doc |-> doc, f16 |-> hasF16,
          rules |-> [i \in 1..Len(nodes) |-> IF nodes[i].k = "r" THEN [s |-> nodes[i].s, e |-> nodes[i].e, bs |-> nodes[i].brace + 1, be |-> nodes[i].cb, props |-> Props(i)]
                                              ELSE [s |-> -1, e |-> -1, bs |-> -1, be |-> -1, props |-> <<>>]],
          items |-> [i \in 1..Len(nodes) |-> [span |-> ItemSpan(i), ranges |-> ItemRanges(i), nosemi |-> nodes[i].ns]],
          at |-> [p \in 1..(Len(doc) + 1) |-> [sec |-> SectionAt(p - 1), n |-> NextItem(p - 1), p |-> PrevItem(p - 1), ns |-> NextSilent(p - 1)]]])>>)

Dump == Complete => PrintT(<<"VEC", ToJson([doc |-> doc, f16 |-> hasF16, evs |-> evs, nodes |-> nodes,
          at |-> [p \in 1..(Len(doc) + 1) |-> [m |-> CMatch(p - 1), o |-> COutward(p - 1), i |-> CInward(p - 1), isilent |-> InwardSilent(p - 1)]]])>>)
=============================================================================
