SPECIFICATION Spec
INVARIANT MergeInv
INVARIANT Untouched
INVARIANT Dump
PROPERTY LayersConstant
CHECK_DEADLOCK FALSE
CONSTANTS
  Keys = {"k1", "k2"}
